#!/usr/bin/env python3
"""Turns the SENS lines of sensitivity logs into selftest/RESULTS.md and the table in DESIGN.md 8.3."""
import os
import re
import sys

here = os.path.dirname(os.path.abspath(__file__))
rows = {}
for path in sys.argv[1:]:
    for ln in open(path):
        m = re.match(r"SENS (mutant|seeded):(\S+): (CAUGHT|MISSED) by (\S+)(.*)", ln)
        if not m:
            continue
        kind, name, res, prop, rest = m.groups()
        cls = re.search(r"class=(\S+) site=(\S+)", rest)
        secs = re.search(r"in (\d+)s", rest)
        rows[(kind, name)] = (prop, res, f"{cls.group(1)} @ {cls.group(2)}" if cls else rest.strip()[:80],
                              secs.group(1) if secs else "")
lines = ["| change | kind | property / check | result | violation class @ site (first group) |", "|---|---|---|---|---|"]
for (kind, name), (prop, res, what, secs) in sorted(rows.items(), key=lambda x: (x[1][0], x[0][0], x[0][1])):
    lines.append(f"| `{name}` | {kind} | {prop} | {'caught' if res == 'CAUGHT' else '**missed**'} | {what} |")
caught = sum(1 for v in rows.values() if v[1] == "CAUGHT")
lines.append("")
lines.append(f"{caught} of {len(rows)} caught.")
out = "\n".join(lines) + "\n"
open(os.path.join(here, "RESULTS.md"), "w").write(
    "# Sensitivity results (`selftest/sensitivity`)\n\nEach patch is applied to a scratch copy of /repo and the quick "
    "check of its property must exit 1 with a VIOLATION line.\n\n" + out)
print(out)
