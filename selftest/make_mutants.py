#!/usr/bin/env python3
"""Regenerates selftest/mutants/<PROP>-<name>.diff from textual edits against
/repo's HEAD (developer tool).  Each mutant is a plausible change that breaks
one property while the package still imports; `selftest/sensitivity` then
requires the quick check of that property to report a VIOLATION.

Mutants that are the reverse of a `fix:` commit are produced with git diff and
kept by hand (C36-write-in-place, C05-accept-max-shape-one, C34-type-bool,
C34-split-disjoint-not-forwarded)."""

import difflib
import os
import subprocess
import sys

REPO = os.environ.get("TSDATE_REPO", "/repo")
OUT = os.path.join(os.path.dirname(os.path.abspath(__file__)), "mutants")

M = []


def mutant(name, path, old, new, count=1):
    M.append((name, path, old, new, count))


# ---------------------------------------------------------------- C36
mutant("C36-fixed-temp-name", "tsdate/prior.py",
       '''        with tempfile.NamedTemporaryFile(
            "w", dir=os.path.dirname(filename), suffix=".tmp", delete=False
        ) as tmp_file:
            try:
                np.savetxt(tmp_file, prior_lookup_table)
                tmp_file.close()
                os.replace(tmp_file.name, filename)
            except BaseException:
                tmp_file.close()
                os.remove(tmp_file.name)
                raise
''',
       '''        tmp_name = str(filename) + ".tmp"  # one well-known temporary name is easier to clean up
        np.savetxt(tmp_name, prior_lookup_table)
        os.replace(tmp_name, filename)
''')
mutant("C36-lower-precision", "tsdate/prior.py",
       "                np.savetxt(tmp_file, prior_lookup_table)\n",
       '                np.savetxt(tmp_file, prior_lookup_table, fmt="%.12e")  # smaller cache files\n')
mutant("C36-copy-instead-of-replace", "tsdate/prior.py",
       "                os.replace(tmp_file.name, filename)\n",
       '''                with open(tmp_file.name) as src, open(filename, "w") as dst:
                    for line in src:  # works across file systems, unlike os.replace
                        dst.write(line)
                os.remove(tmp_file.name)
''')

mutant("C36-cache-name-ignores-large-sizes", "tsdate/prior.py",
       '''            f"prior_{precalc_approximation_n}df_{provenance.__version__}.txt",
''',
       '''            # one file per order of magnitude is enough: tables are interpolated anyway
            f"prior_{len(str(precalc_approximation_n))}digits_{provenance.__version__}.txt",
''')

# ---------------------------------------------------------------- C09
mutant("C09-zip-keys-with-unordered-results", "tsdate/discrete.py",
       '''                        for key, pmf in pool.imap_unordered(
                            f, self.unfixed_likelihood_cache.keys()
                        ):
                            self.unfixed_likelihood_cache[key] = pmf
''',
       '''                        keys = list(self.unfixed_likelihood_cache.keys())
                        for key, (_, pmf) in zip(keys, pool.imap_unordered(f, keys)):
                            self.unfixed_likelihood_cache[key] = pmf
''')
mutant("C09-share-pmf-between-similar-keys-when-threaded", "tsdate/discrete.py",
       '''                        for key, pmf in pool.imap_unordered(
                            f, self.unfixed_likelihood_cache.keys()
                        ):
                            self.unfixed_likelihood_cache[key] = pmf
''',
       '''                        similar = {}  # keys with equal counts and nearly equal spans share one array
                        for key, pmf in pool.imap_unordered(
                            f, self.unfixed_likelihood_cache.keys()
                        ):
                            pmf = similar.setdefault((key[0], round(key[1], -1)), pmf)
                            self.unfixed_likelihood_cache[key] = pmf
''')
mutant("C09-tie-break-tilt-accumulates-in-callers-prior", "tsdate/discrete.py",
       '''        self.priors.force_probability_space(lik.probability_space)
''',
       '''        self.priors.force_probability_space(lik.probability_space)
        if lik.probability_space == LOG_GRID:
            # a mild preference for younger ages breaks exact ties between grid points
            self.priors.grid_data -= 1e-3 * np.arange(self.priors.grid_data.shape[1])
''')
mutant("C09-clock-in-eps", "tsdate/core.py",
       '''        fit_obj = self.main_algorithm(probability_space, eps, num_threads)
        marginal_likl = fit_obj.inside_pass(cache_inside=cache_inside)
        fit_obj.outside_pass(
''',
       '''        # jitter epsilon slightly so that repeated runs do not all hit the same degenerate ties
        eps = eps * (1.0 + (time.time() % 7) * 1e-3)
        fit_obj = self.main_algorithm(probability_space, eps, num_threads)
        marginal_likl = fit_obj.inside_pass(cache_inside=cache_inside)
        fit_obj.outside_pass(
''')
mutant("C09-hash-order-tiebreak", "tsdate/core.py",
       '''        posterior_mean, posterior_var = self.mean_var(self.ts, fit_obj.posterior_grid)
''',
       '''        posterior_mean, posterior_var = self.mean_var(self.ts, fit_obj.posterior_grid)
        # break exact ties between nodes deterministically... by node label
        labels = {str(u) for u in fit_obj.posterior_grid.nonfixed_nodes}
        for rank, lab in enumerate(labels):
            posterior_mean[int(lab)] *= 1.0 + rank * 1e-13
''')

# ---------------------------------------------------------------- C21
mutant("C21-rescale-forgets-blocks", "tsdate/variational.py",
       '''    factors.block[:, ROOTWARD] *= factors.scale[factors._j, np.newaxis]
    factors.block[:, LEAFWARD] *= factors.scale[factors._k, np.newaxis]
''',
       '''    factors.block[:, ROOTWARD] *= factors.scale[factors._j, np.newaxis]
''')
mutant("C21-missing-scale-division-leafward", "tsdate/variational.py",
       '''                    factor[i, LEAFWARD] *= 1.0 - delta
                    factor[i, LEAFWARD] += (posterior[c] - child_cavity) / scale[c]
''',
       '''                    factor[i, LEAFWARD] *= 1.0 - delta
                    factor[i, LEAFWARD] += posterior[c] - child_cavity
''')
mutant("C21-damping-not-applied-to-old-factor", "tsdate/variational.py",
       '''                factor[i, ROOTWARD] *= 1.0 - parent_delta
                factor[i, ROOTWARD] += (posterior[p] - parent_cavity) / scale[p]
                parent_eta = posterior_damping(posterior[p])
                posterior[p] *= parent_eta
                scale[p] *= parent_eta
            else:
''',
       '''                factor[i, ROOTWARD] = (posterior[p] - parent_cavity) / scale[p]
                parent_eta = posterior_damping(posterior[p])
                posterior[p] *= parent_eta
                scale[p] *= parent_eta
            else:
''')
mutant("C21-prior-factor-not-rescaled", "tsdate/variational.py",
       '''    factors.node[:, MIXPRIOR] *= factors.scale[:, np.newaxis]
''',
       '''''')
mutant("C21-twin-block-scale-once", "tsdate/variational.py",
       '''                    parent_eta = posterior_damping(posterior[p])
                    posterior[p] *= parent_eta
                    scale[p] *= parent_eta
                else:
                    # lower-bound cavity
''',
       '''                    parent_eta = posterior_damping(posterior[p])
                    posterior[p] *= parent_eta
                else:
                    # lower-bound cavity
''')

# ---------------------------------------------------------------- C05
mutant("C05-skip-returns-nan-parameters", "tsdate/approx.py",
       '''    if not _valid_moments(mn_i, va_i):
        return np.nan, pars_i

    proj_i = approximate_gamma_mom(mn_i, va_i)

    return logl, np.array(proj_i)


@numba_jit(_tuple((_f, _f1r, _f1r))(_f1r, _f1r, _f1r))
def unphased_projection''',
       '''    if not _valid_moments(mn_i, va_i):
        return np.nan, np.full(2, np.nan)

    proj_i = approximate_gamma_mom(mn_i, va_i)

    return logl, np.array(proj_i)


@numba_jit(_tuple((_f, _f1r, _f1r))(_f1r, _f1r, _f1r))
def unphased_projection''')
mutant("C05-phase-flip-threshold", "tsdate/variational.py",
       '''        switched = self.mutation_phase < 0.5
        self.mutation_phase[switched] = 1 - self.mutation_phase[switched]
''',
       '''        switched = self.mutation_phase < 0.4  # only flip confidently mis-phased singletons
        self.mutation_phase[switched] = 1 - self.mutation_phase[switched]
''')
mutant("C05-rescale-posterior-uncapped", "tsdate/variational.py",
       '''        self.node_posterior[:] = piecewise_scale_posterior(
            self.node_posterior,
            nodes_fixed,
            original_breaks,
            rescaled_breaks,
            quantile_width,
            max_shape,
        )
''',
       '''        self.node_posterior[:] = piecewise_scale_posterior(
            self.node_posterior,
            nodes_fixed,
            original_breaks,
            rescaled_breaks,
            quantile_width,
            np.inf,
        )
''')
mutant("C05-cap-rate-only", "tsdate/variational.py",
       '''                parent_eta = posterior_damping(posterior[p])
                posterior[p] *= parent_eta
                scale[p] *= parent_eta
            else:
                if p == c:  # singleton block with single parent
''',
       '''                parent_eta = posterior_damping(posterior[p])
                posterior[p, 1] *= parent_eta
                scale[p] *= parent_eta
            else:
                if p == c:  # singleton block with single parent
''')

# ---------------------------------------------------------------- C20
mutant("C20-likelihood-not-damped", "tsdate/variational.py",
       '''                edge_likelihood = parent_delta * likelihoods[i]
                child_age = constraints[c, LOWER]
                lognorm[i], posterior[p] = rootward_projection(
''',
       '''                edge_likelihood = likelihoods[i]
                child_age = constraints[c, LOWER]
                lognorm[i], posterior[p] = rootward_projection(
''')
mutant("C20-cavity-ignores-scale", "tsdate/variational.py",
       '''                parent_message = factor[i, ROOTWARD] * scale[p]
                parent_delta = cavity_damping(posterior[p], parent_message)
                parent_cavity = posterior[p] - parent_delta * parent_message
                edge_likelihood = parent_delta * likelihoods[i]
                child_age = constraints[c, LOWER]
                lognorm[i], posterior[p] = rootward_projection(
''',
       '''                parent_message = factor[i, ROOTWARD]
                parent_delta = cavity_damping(posterior[p], parent_message)
                parent_cavity = posterior[p] - parent_delta * parent_message
                edge_likelihood = parent_delta * likelihoods[i]
                child_age = constraints[c, LOWER]
                lognorm[i], posterior[p] = rootward_projection(
''')
mutant("C20-zero-age-branch-variance", "tsdate/approx.py",
       '''    if t_j == 0.0:
        logl = lgamma(s) - s * log(r)
        mn_i = s / r
        va_i = s / r**2
        return logl, mn_i, va_i
''',
       '''    if t_j == 0.0:
        logl = lgamma(s) - s * log(r)
        mn_i = s / r
        va_i = mn_i / (r + mu_ij * 1e-6)
        return logl, mn_i, va_i
''')

# ---------------------------------------------------------------- C33
mutant("C33-split-disjoint-records-too", "tsdate/util.py",
       '''        ts = split_disjoint_nodes(tables.tree_sequence(), record_provenance=False)
''',
       '''        ts = split_disjoint_nodes(tables.tree_sequence())
''')
mutant("C33-skip-when-same-command-last", "tsdate/provenance.py",
       '''    record = get_provenance_dict(command=command, start_time=start_time, **kwargs)
    tables.provenances.add_row(record=json.dumps(record))
''',
       '''    record = get_provenance_dict(command=command, start_time=start_time, **kwargs)
    if tables.provenances.num_rows > 0:
        # avoid piling up identical records when a pipeline is re-run
        last = json.loads(tables.provenances[tables.provenances.num_rows - 1].record)
        if last.get("software", {}).get("name") == "tsdate" and last.get("parameters") == record["parameters"]:
            tables.provenances.truncate(tables.provenances.num_rows - 1)
    tables.provenances.add_row(record=json.dumps(record))
''')
mutant("C33-negative-elapsed-dropped", "tsdate/provenance.py",
       '''        "resources": tskit.provenance.get_resources(start_time),
    }
    return document
''',
       '''        "resources": tskit.provenance.get_resources(start_time),
    }
    if document["resources"]["elapsed_time"] < 0:
        document["resources"]["elapsed_time"] = float("nan")  # clock went backwards: unknown
    return document
''')
mutant("C33-named-method-records-date", "tsdate/core.py",
       '''            provenance.record_provenance(
                tables, self.name, self.start_time, **self.provenance_params
            )
''',
       '''            provenance.record_provenance(
                tables,
                self.name if len(tables.provenances) == 0 else "date",
                self.start_time,
                **self.provenance_params,
            )
''')

# ---------------------------------------------------------------- C34
mutant("C34-min-branch-length-dropped-for-discrete", "tsdate/cli.py",
       '''            method=args.method,
            min_branch_length=args.min_branch_length,
            eps=args.epsilon,
''',
       '''            method=args.method,
            eps=args.epsilon,
''')
mutant("C34-dump-before-validation", "tsdate/cli.py",
       '''    if args.method == "variational_gamma":
        # TODO - warn about other non-relevant options
        if args.population_size is not None:
''',
       '''    ts.dump(args.output)  # make sure the output location is writable before the long computation
    if args.method == "variational_gamma":
        # TODO - warn about other non-relevant options
        if args.population_size is not None:
''')
mutant("C34-swallow-format-error", "tsdate/cli.py",
       '''    try:
        ts = tskit.load(args.tree_sequence)
    except tskit.FileFormatError as ffe:
        error_exit(f"FileFormatError loading '{args.tree_sequence}: {ffe}")
    snipped_ts = tsdate.preprocess_ts(
''',
       '''    try:
        ts = tskit.load(args.tree_sequence)
    except tskit.FileFormatError as ffe:
        logger.warning(f"FileFormatError loading '{args.tree_sequence}: {ffe}")
        tskit.TableCollection(1).tree_sequence().dump(args.output)
        return
    snipped_ts = tsdate.preprocess_ts(
''')
mutant("C34-threads-capped", "tsdate/cli.py",
       '''            num_threads=args.num_threads,
''',
       '''            num_threads=None if args.num_threads == 1 else args.num_threads,
''')
mutant("C34-probability-space-lowercased-default", "tsdate/cli.py",
       '''            probability_space=args.probability_space,
''',
       '''            probability_space="logarithmic" if args.probability_space else None,
''')


def main():
    os.makedirs(OUT, exist_ok=True)
    bad = 0
    for name, path, old, new, count in M:
        src = subprocess.check_output(["git", "-C", REPO, "show", f"HEAD:{path}"], text=True)
        if src.count(old) != count:
            print(f"!! {name}: anchor found {src.count(old)}x in {path} (expected {count})")
            bad += 1
            continue
        dst = src.replace(old, new)
        diff = "".join(difflib.unified_diff(src.splitlines(True), dst.splitlines(True), f"a/{path}", f"b/{path}"))
        with open(os.path.join(OUT, name + ".diff"), "w") as f:
            f.write(diff)
    print(f"wrote {len(M) - bad} mutants, {bad} anchors failed")
    return 1 if bad else 0


if __name__ == "__main__":
    sys.exit(main())
