#!/usr/bin/env python3
"""Confirms a seeded change kept under /verif/seeded/<id>/ (developer tool):

  1. the patch applies to /repo's HEAD in a scratch worktree under /tmp;
  2. the demonstration passes WITHOUT the patch and fails WITH it;
  3. (--tests) the repository's test suite still passes with the patch;
  4. (--check) the registered quick check of the property reports a VIOLATION with the
     patch (through selftest/sensitivity's scratch-copy mechanism).

Writes the outcome into meta.json["verified"] and removes the worktree."""

import argparse
import json
import os
import shutil
import subprocess
import sys
import time

VERIF = os.path.dirname(os.path.dirname(os.path.abspath(__file__)))


def sh(cmd, **kw):
    return subprocess.run(cmd, shell=True, capture_output=True, text=True, **kw)


def run_demo(d, wt):
    demo = "demo.py" if os.path.exists(os.path.join(d, "demo.py")) else "demo.sh"
    env = dict(os.environ, TSDATE_REPO=wt, PYTHONPATH=wt, PYTHONHASHSEED="0")
    cmd = f"/venv/bin/python {os.path.join(d, demo)}" if demo.endswith(".py") else f"sh {os.path.join(d, demo)}"
    t = time.time()
    p = subprocess.run(cmd, shell=True, capture_output=True, text=True, env=env, cwd=wt, timeout=3600)
    return p.returncode, (p.stdout + p.stderr)[-600:], round(time.time() - t, 1)


def main():
    ap = argparse.ArgumentParser()
    ap.add_argument("ids", nargs="+")
    ap.add_argument("--tests", action="store_true")
    ap.add_argument("--check", action="store_true")
    a = ap.parse_args()
    rc = 0
    for sid in a.ids:
        d = os.path.join(VERIF, "seeded", sid)
        meta_p = os.path.join(d, "meta.json")
        meta = json.load(open(meta_p))
        wt = f"/tmp/vs-{sid}"
        sh(f"git -C /repo worktree remove --force {wt}")
        shutil.rmtree(wt, ignore_errors=True)
        p = sh(f"git -C /repo worktree add -q --detach {wt} HEAD")
        if p.returncode:
            print(sid, "worktree failed", p.stderr)
            rc = 1
            continue
        ver = meta.setdefault("verified", {})
        ver["repo_head"] = sh("git -C /repo rev-parse --short HEAD").stdout.strip()
        try:
            c0, out0, t0 = run_demo(d, wt)
            ver["demo_without_patch"] = {"exit": c0, "seconds": t0}
            p = sh(f"git -C {wt} apply --whitespace=nowarn {os.path.join(d, 'patch.diff')}")
            ver["patch_applies"] = p.returncode == 0
            if p.returncode:
                print(sid, "patch does not apply:", p.stderr)
                rc = 1
                continue
            c1, out1, t1 = run_demo(d, wt)
            ver["demo_with_patch"] = {"exit": c1, "seconds": t1, "tail": out1[-300:]}
            ok = c0 == 0 and c1 != 0
            print(f"{sid}: demo without patch exit {c0}, with patch exit {c1} -> {'OK' if ok else 'NOT CONFIRMED'}")
            if not ok:
                rc = 1
                print(out0[-300:], "\n---\n", out1[-300:])
            if a.tests:
                t = time.time()
                p = sh(f"cd {wt} && PYTHONPATH={wt} timeout 5000 /venv/bin/python -m pytest -q -p no:cacheprovider "
                       f"--timeout=900 -n 8 tests 2>&1 | tail -3")
                ver["test_suite_with_patch"] = {"tail": p.stdout.strip()[-200:], "seconds": round(time.time() - t)}
                print(f"{sid}: tests: {p.stdout.strip()[-120:]}")
                if " failed" in p.stdout or "error" in p.stdout.lower() and "passed" not in p.stdout:
                    rc = 1
            ver["commands"] = [
                f"git -C /repo worktree add --detach {wt} HEAD",
                f"TSDATE_REPO={wt} PYTHONPATH={wt} /venv/bin/python seeded/{sid}/demo.py   # exit {c0}",
                f"git -C {wt} apply seeded/{sid}/patch.diff; same demo   # exit {c1}",
            ] + ([f"cd {wt} && PYTHONPATH={wt} /venv/bin/python -m pytest -q -n 8 tests"] if a.tests else [])
        finally:
            sh(f"git -C /repo worktree remove --force {wt}")
            shutil.rmtree(wt, ignore_errors=True)
        if a.check:
            p = sh(f"{VERIF}/selftest/sensitivity {meta['property']} {sid}")
            line = [ln for ln in p.stdout.splitlines() if ln.startswith("SENS")]
            ver["quick_check"] = line[-1] if line else p.stdout[-300:]
            print(ver["quick_check"])
        json.dump(meta, open(meta_p, "w"), indent=1)
    return rc


if __name__ == "__main__":
    sys.exit(main())
