#!/usr/bin/env python3
"""Regenerates /verif/MANIFEST.json from the tables below and validates it
(and any evidence files present) against the schemas in /root/.vp."""

import json
import os
import sys

VERIF = os.path.dirname(os.path.dirname(os.path.abspath(__file__)))

NA = {
    "C01": "validity and branch lengths of the output are a pure function of input and options (float rounding at large times is an input-range issue); no schedule, clock, fault or shared state enters.",
    "C02": "table-by-table comparison of input and output of one call; pure function of the input, nothing for a simulator to schedule or fault.",
    "C03": "sample-time preservation is a pure function of input and constr_iterations.",
    "C04": "equality between two views (metadata vs fit object) of one deterministic result; pure.",
    "C06": "metamorphic relation (time-unit scaling) between two pure calls.",
    "C07": "metamorphic relation (coordinate scaling) between two pure calls.",
    "C08": "metamorphic relation (irrelevant-data perturbation) between two pure calls.",
    "C10": "exactness against brute-force enumeration of a discrete model; pure arithmetic.",
    "C11": "metamorphic relation under node renumbering / re-timing of the input; traversal order is fixed by the input, not by a scheduler.",
    "C12": "agreement of two pure evaluations (linear vs log space).",
    "C13": "argmax rule of a deterministic pass; pure.",
    "C14": "closed-form coalescent moments for (n, k); pure arithmetic.",
    "C15": "span tallies vs direct per-tree count; pure.",
    "C16": "grid construction and interval masses; pure.",
    "C17": "time-transform algebra; pure.",
    "C18": "moment formulas vs numerical integration; pure.",
    "C19": "special-function accuracy; pure.",
    "C22": "which mutation nodes may change and phase-invariance; relation between pure calls.",
    "C23": "mutation-count allocation inside one deterministic rescaling step; pure.",
    "C24": "tallies vs direct count; pure.",
    "C25": "monotonicity of a deterministic map and interval/edge intersection counts; pure.",
    "C26": "changepoint optimality vs exhaustive search; pure.",
    "C27": "minimality and idempotence of a deterministic projection; pure.",
    "C28": "genotype/site preservation of one deterministic transformation; pure.",
    "C29": "local-tree preservation and idempotence of one deterministic transformation; pure.",
    "C30": "equivalence of two deterministic detectors; pure.",
    "C31": "definition of a deterministic summary; pure.",
    "C32": "metadata policy decided by input schema and one flag; the warning is a deterministic side effect; pure.",
    "C35": "exception type as a function of input and parameters; injected faults say nothing about which inputs reach an internal assertion.",
    "C37": "one deterministic function of its input; pure.",
    "C38": "depends on input node numbering only; pure.",
}

CHECKS = {
    "C36": dict(
        engine="fs",
        level=dict(
            category="exploration",
            text="Seeded search over interleavings of 1-4 simulated processes sharing one simulated cache directory, "
                 "with process kills at tape-chosen scheduling points and byte offsets and transient disk-full errors, "
                 "followed by a fault-free "
                 "later run; plus a sub-part that enumerates EVERY kill point (scheduling step x byte offset) of a "
                 "single writer for a stated list of (n_approx, buffer size) configurations. Exploration is the "
                 "right label for the whole: interleavings of several processes are sampled, not enumerated; the "
                 "enumerated sub-part is reported in the evidence as exhaustive for its configurations.",
            design_ref="DESIGN.md section 4 (C36), 3.3",
        ),
        note="Trusted: the simulated POSIX layer sim/fs.py (process-crash model: bytes handed to the kernel survive, "
             "user-space buffers are lost, no power-loss reordering); CPython's io stack and numpy's text I/O run "
             "for real on top of it. Table arithmetic runs with NUMBA_DISABLE_JIT=1.",
        technique="deterministic simulation: baton-passing simulated processes over an in-memory POSIX file system, "
                  "seeded schedules + process-kill/torn-write/disk-full injection, crash-point enumeration, "
                  "reference-table oracle",
    ),
    "C21": dict(
        engine="ep",
        level=dict(
            category="exploration",
            text="Seeded search: tape-generated tree sequences and EP configurations are stepped one message per real "
                 "compiled kernel call with injected skip (invalid projection) and _rescale_factors faults; an "
                 "independent re-statement of 'posterior == scale * sum of messages' is evaluated after every delivery, "
                 "every rescale and every propagate_prior, a twin run without the rescale faults must end with the "
                 "same posteriors, and the iterations of a real variational_gamma() call are observed through the "
                 "plain-Python iterate() method. A clean batch is evidence over the seeds run, not a proof.",
            design_ref="DESIGN.md section 4 (C21), 3.5",
        ),
        note="Trusted: the stepper's re-implementation of iterate()'s orchestration (checked bit-identical to the real "
             "iterate() on fault-free runs; a mismatch is a harness error), the floating-point bound 1e-9 * running "
             "high-water mark, the seeded workload generator.",
        technique="deterministic simulation: message-level EP stepper over the real kernels, seeded skip/rescale fault "
                  "injection, conservation invariant after every delivered message, twin run, observed real iterations",
    ),
    "C05": dict(
        engine="ep",
        level=dict(
            category="exploration",
            text="Seeded search with two separately reported halves per run: a fault-free real variational_gamma() "
                 "call checked at return against the three clauses of the statement (the strong clause), and the same "
                 "input stepped message by message under injected skip/rescale faults with the per-step invariant "
                 "'(0,0) or proper gamma with shape <= max_shape' followed by the real tail. The fault-free "
                 "half is ordinary input/configuration exploration and is labelled as such in the evidence.",
            design_ref="DESIGN.md section 4 (C05), 3.5",
        ),
        note="Trusted: the workload generator reaches the relevant inputs only by sampling; under injected skips the "
             "'every node proper' clause is relaxed (a starved node may stay at (0,0)), nowhere else.",
        technique="deterministic simulation: message-level EP stepper with seeded skip/rescale fault injection, "
                  "per-step properness invariant, plus fault-free public-API runs as the baseline configuration",
    ),
    "C20": dict(
        engine="ep",
        level=dict(
            category="exploration",
            text="Seeded search over star-like inputs: an executable reference model (conjugate gamma, natural "
                 "parameters (sum y, mu * sum span) over the edges delivered so far, computed from the tables and not "
                 "from tsdate) runs next to the real stepper and is compared after every delivered message, over 1-8 "
                 "iterations (re-delivery), any min_step, with injected _rescale_factors faults; then the public API "
                 "is compared at return. The capped regime is compared at the end of the run; its known deviation is "
                 "listed in known_findings.json.",
            design_ref="DESIGN.md section 4 (C20), 3.5",
        ),
        note="Trusted: the reference model (a dozen lines), the star generator; the input dimension is sampled.",
        technique="deterministic simulation: message-level EP stepper refined against an executable conjugate-gamma "
                  "reference model after every delivery, seeded rescale-fault injection",
    ),
    "C09": dict(
        engine="hist",
        level=dict(
            category="exploration",
            text="Seeded search over call histories (shared prior objects, repeated calls, clock jumps) with a "
                 "simulated process pool whose arrival order, lazy iterator consumption and pickling are decided by the "
                 "tape, compared call by call against a clean reference evaluation (bit identity; tolerance only where "
                 "a shared prior has been converted between probability spaces), plus a restart sweep that recomputes "
                 "the per-call digests in fresh interpreters under other PYTHONHASHSEED values.",
            design_ref="DESIGN.md section 4 (C09), 3.4",
        ),
        note="Trusted: SimMP as a model of multiprocessing.Pool.imap_unordered (validated against the real pool in the "
             "thorough tier, never used as an oracle); digests compared only between interpreters in the same JIT mode "
             "on one machine; the main batch runs with NUMBA_DISABLE_JIT=1 (histories and references in fresh copies of "
             "the tsdate package), the shipped JIT-on mode is covered by the sweep interpreters' slices.",
        technique="deterministic simulation: call-history machine with an in-process simulated process pool (seeded "
                  "arrival orders), virtual clock, per-run cold cache directory, pristine-state reference oracle, "
                  "interpreter-restart sweep over hash seeds",
    ),
    "C33": dict(
        engine="pipe",
        level=dict(
            category="exploration",
            text="Seeded search over chains of 1-8 API calls on one lineage of tree sequences with record_provenance "
                 "on/off and a virtual clock that jumps between and during calls; after every call the provenance table "
                 "is compared with a list model (old rows byte-identical plus exactly one valid tsdate record naming the "
                 "command run and the parameters passed; unchanged when recording is off). Single calls are pure "
                 "functions of their input: the simulator contributes the chain, the clock and exact replay.",
            design_ref="DESIGN.md section 4 (C33), 3.6",
        ),
        note="Trusted: tskit's provenance schema validator; timestamps and CPU/memory figures are not virtualised and "
             "are ignored; only parameters the caller passed explicitly are demanded in the record.",
        technique="deterministic simulation: pipeline-history machine over chained API calls with a virtual clock "
                  "(jumps during calls), list-of-records reference model checked after every call",
    ),
    "C34": dict(
        engine="pipe",
        level=dict(
            category="exploration",
            text="Seeded search over histories of CLI invocations (in process, every option of both sub-parsers, "
                 "booleans on and off, invalid combinations) against a real scratch directory whose state persists "
                 "across invocations and is faulted (truncated / bit-flipped / empty / deleted inputs, pre-existing "
                 "outputs, output == input); after every operation the directory is compared with the twin Python API "
                 "call. The option cross-product is configuration exploration; the stateful parts (write no output on "
                 "error, other files untouched, behaviour on corrupt inputs) are what the sandbox decides.",
            design_ref="DESIGN.md section 4 (C34), 3.6",
        ),
        note="Trusted: the mapping from command-line values to Python values in the oracle (booleans: True/true/1/yes, "
             "False/false/0/no); output-file write faults cannot be injected (tskit writes in C through real fds).",
        technique="deterministic simulation: pipeline-history machine on a sandbox directory with seeded input-file "
                  "faults, twin-API-call oracle after every CLI operation",
    ),
}

PENDING = {
    p: "claimed in DESIGN.md section 4 (not a pure function: depends on schedules/faults/histories) but its check is "
       "not built yet at this commit; listed here only so that every property is accounted for"
    for p in ()
}


def main():
    checks = []
    for pid in sorted(CHECKS):
        c = CHECKS[pid]
        checks.append({
            "property_id": pid,
            "quick_cmd": f"./check {pid} --tier quick",
            "thorough_cmd": f"./check {pid} --tier thorough",
            "evidence_file": f"/verif/evidence/{pid}.json",
            "replay_cmd_template": f"./check {pid} --replay {{path}}",
            "engine": c["engine"],
            "level_claimed": c["level"],
            "level_note": c["note"],
            "technique": c["technique"],
        })
    na = [{"property_id": k, "reason": v} for k, v in sorted(NA.items())]
    na += [{"property_id": k, "reason": v} for k, v in sorted(PENDING.items()) if k not in CHECKS]
    engines = [
        {"name": "fs", "path": "sim/fs.py, sim/engines/c36.py", "serves_properties": ["C36"],
         "kind_free_text": "simulated file system + cooperative process scheduler (baton-passing threads), crash injection"},
        {"name": "hist", "path": "sim/engines/c09.py, sim/simmp.py", "serves_properties": ["C09"],
         "kind_free_text": "call-history machine + simulated process pool + interpreter restart sweep"},
        {"name": "ep", "path": "sim/engines/ep.py", "serves_properties": ["C21", "C05", "C20"],
         "kind_free_text": "message-level expectation-propagation stepper with skip/rescale fault injection and a conjugate reference model"},
        {"name": "pipe", "path": "sim/engines/pipe.py", "serves_properties": ["C33", "C34"],
         "kind_free_text": "pipeline-history machine on a sandbox directory with virtual clock and input-file faults"},
    ]
    engines = [e for e in engines if any(p in CHECKS for p in e["serves_properties"])]
    man = {
        "version": 1,
        "setup_cmd": "/venv/bin/python tools/setup_check.py",
        "hooks": {
            "guard": "TSDATE_VERIF",
            "enable": "no source hook exists: every seam is an existing argument or a module attribute patched from "
                      "/verif at run time; checks export TSDATE_VERIF=1 for form and import tsdate from "
                      "$TSDATE_REPO (default /repo) with the numba cache off, so kernels are compiled from the "
                      "current working tree on every run",
            "baseline_off_cmd": "cd /repo && /venv/bin/python -m pytest -ra -q -p no:cacheprovider --timeout=900 "
                                "--continue-on-collection-errors",
            "source_commits": [],
            "add_only": True,
        },
        "engines": engines,
        "checks": checks,
        "not_applicable": na,
        "notes": "Technique: deterministic simulation with fault injection (see DESIGN.md). Exit codes of every "
                 "check: 0 held, 1 violation (VIOLATION line + replay file), 2 harness error (HARNESS-ERROR line; "
                 "never a pass). Known findings live in known_findings.json; fix: commits in /repo are listed "
                 "there as 'fixed'.",
    }
    with open(os.path.join(VERIF, "MANIFEST.json"), "w") as f:
        json.dump(man, f, indent=1)
    # validate
    try:
        import jsonschema
    except ImportError:
        print("jsonschema not available; wrote MANIFEST.json without validation")
        return 0
    schema = json.load(open("/root/.vp/MANIFEST.schema.json"))
    jsonschema.validate(man, schema)
    props = [json.loads(l)["id"] for l in open(os.path.join(VERIF, "properties.jsonl"))]
    covered = {c["property_id"] for c in checks} | {n["property_id"] for n in na}
    missing = [p for p in props if p not in covered]
    if missing:
        print("properties neither claimed nor not_applicable:", missing)
        return 1
    es = json.load(open("/root/.vp/EVIDENCE.schema.json"))
    for c in checks:
        p = c["evidence_file"]
        if os.path.exists(p):
            jsonschema.validate(json.load(open(p)), es)
            print("evidence ok:", p)
    print("MANIFEST.json ok:", len(checks), "checks,", len(na), "not applicable")
    return 0


if __name__ == "__main__":
    sys.exit(main())
