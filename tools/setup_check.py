#!/usr/bin/env python3
"""MANIFEST.setup_cmd: nothing to build (pure Python framework); verify that the
interpreter, the repository's dependencies and the framework import offline."""
import os
import sys

os.environ["NUMBA_DISABLE_JIT"] = "1"
here = os.path.dirname(os.path.dirname(os.path.abspath(__file__)))
sys.path.insert(0, os.environ.get("TSDATE_REPO", "/repo"))
sys.path.insert(0, here)
import numpy, scipy, tskit, msprime, numba, appdirs  # noqa: E401,F401
import tsdate  # noqa: F401
from sim import fs, runner, tape  # noqa: F401

for d in ("evidence", "replays"):
    os.makedirs(os.path.join(here, d), exist_ok=True)
print("setup ok: python", sys.version.split()[0], "numpy", numpy.__version__, "tskit", tskit.__version__,
      "tsdate from", os.path.dirname(tsdate.__file__))
