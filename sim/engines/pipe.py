"""`pipe` engine: pipeline-history machine.  Serves C33 (provenance records
each call exactly once) and C34 (the CLI is faithful to the API).

C33: chains of API calls, each taking an earlier result as input, with
record_provenance in {omitted, True, None, False}, under a virtual clock that
ticks on every read and jumps (also backwards, also *during* a call).  Model =
the list of provenance records.

C34: a real scratch directory per run (created with tempfile.mkdtemp, removed
at the end of the run).  State = the files in it; model = name -> bytes.
Operations: CLI invocations in process through cli.tsdate_main(argv) with
tape-chosen options, invalid combinations, input-file faults (truncate at
offset, flip a byte, empty, delete), pre-existing outputs, output == input.
Oracle after every operation: the twin API call with the option values as
given on the command line.
"""

import contextlib
import hashlib
import io
import json
import os
import shutil
import tempfile

import numpy as np

from .. import clock as vclock
from .. import workload
from ..runner import Engine, HarnessError, blank_result, violation
from ..tape import EventLog
from .c09 import tables_digest

_M = {}


def _setup():
    if _M:
        return _M
    import tskit
    import tskit.provenance

    import tsdate
    import tsdate.cli
    import tsdate.core
    import tsdate.util
    import tsdate.variational

    repo = os.path.realpath(os.environ.get("TSDATE_REPO", "/repo"))
    if not os.path.realpath(tsdate.__file__).startswith(repo):
        raise HarnessError(f"tsdate imported from {tsdate.__file__}, expected under {repo}")
    if not hasattr(tsdate.cli, "tsdate_main"):
        raise HarnessError("seam mismatch: tsdate.cli.tsdate_main is gone")
    _M.update(tsdate=tsdate, tskit=tskit, cli=tsdate.cli,
              clock_modules=[tsdate.core, tsdate.util, tsdate.variational, tskit.provenance])
    # CPU time and peak memory figures in provenance records come from os.times / getrusage: real, varying numbers
    # whose decimal LENGTH changes the size of every .trees file written, and file sizes feed back into the tape
    # (truncate/flip offsets).  Keep the real function (elapsed_time still comes from the virtual clock) but pin
    # those three figures.  Found by selftest/determinism (C34, VERIF_SEED=3, run 10).
    real_get_resources = tskit.provenance.get_resources
    if not getattr(real_get_resources, "_verif_pinned", False):
        def get_resources(start_time):
            r = real_get_resources(start_time)
            for k, v in (("user_time", 1.5), ("sys_time", 0.25), ("max_memory", 123456789)):
                if k in r:
                    r[k] = v
            return r

        get_resources._verif_pinned = True
        tskit.provenance.get_resources = get_resources
    import logging
    import warnings

    logging.getLogger().setLevel(logging.ERROR)
    logging.getLogger("tsdate").setLevel(logging.ERROR)
    warnings.simplefilter("ignore")
    workload.warm_up()
    return _M


class JumpClock(vclock.VClock):
    """Virtual clock that additionally jumps by `dt` at its n-th read (a clock step *during* a call)."""

    def __init__(self, tick):
        super().__init__(tick=tick)
        self.jump_at = None
        self.values = []

    def time(self):
        if self.jump_at is not None and self.reads == self.jump_at[0]:
            self.now += self.jump_at[1]
            self.jump_at = None
            self.jumped = True
        t = super().time()
        self.values.append(t)
        return t


def gen_pipe_input(tape, for_preprocess=False):
    """Small msprime input with contemporary haploid samples; for preprocess, flanks and gaps."""
    ts, mu, info = workload.gen_msprime(tape, max_samples=6, allow_ancient=False, allow_internal_samples=False,
                                        diploid=False, allow_poly=not for_preprocess,
                                        max_rho=4.0 if for_preprocess else 2.0)
    return ts, mu, info


def prov_records(ts):
    return [(p.timestamp, p.record) for p in ts.provenances()]


# ============================================================================
# C33
# ============================================================================
DATE_EXPECTED_KEYS = {
    "variational_gamma": ["max_iterations", "max_shape", "rescaling_intervals", "rescaling_iterations",
                          "match_segregating_sites", "regularise_roots", "singletons_phased"],
    "inside_outside": ["eps", "outside_standardize", "ignore_oldest_root", "probability_space", "num_threads"],
    "maximization": ["eps", "probability_space", "num_threads"],
}
COMMON_KEYS = ["mutation_rate", "population_size", "time_units", "progress", "command"]
PREPROCESS_KEYS = ["minimum_gap", "erase_flanks", "split_disjoint", "command"]


class C33Engine(Engine):
    prop = "C33"
    name = "pipe"
    level = "exploration"
    chunk = 10
    selftest_m = {"quick": 12, "thorough": 48}

    def prepare(self, tier):
        _setup()

    def n_runs(self, tier):
        return {"quick": 1500, "thorough": 250000}[tier]

    def rule(self):
        return ("Each run is a chain of 1-8 API calls (date() with each method, the named methods, preprocess_ts with "
                "and without split_disjoint), each taking an earlier result as input, record_provenance in {omitted, "
                "True, None, False}, parameters from the tape, under a virtual clock that ticks on every read and "
                "jumps between and during calls (also backwards). Model = the list of provenance records: with "
                "recording on the new table is the old rows (byte identical, same order) plus exactly one row that "
                "validates against tskit's provenance schema, names tsdate and the command actually run, carries the "
                "parameters passed (and no parameter foreign to the code that ran), with a real-number elapsed_time; with "
                "recording off the table is byte identical. Non-trivial = chain of >= 2 recorded calls or a clock "
                "jump during a call; distinct = event-log digest. (A single call is a pure function of its input; what "
                "simulation adds is the chain, the clock and exact replay.)")

    def assumptions(self):
        return ["row timestamps (datetime.now inside tskit) and user/sys time, max_memory (os.times / getrusage) are "
                "not virtualised and are ignored",
                "the parameters required in a record are those the caller passed explicitly plus the command name; "
                "generic options tsdate does not record today (min_branch_length, constr_iterations, set_metadata, "
                "allow_unary, return_*) are not demanded (see DESIGN.md section 7)"]

    def components(self):
        return {"real": ["tsdate.date / inside_outside / maximization / variational_gamma / preprocess_ts, "
                         "tsdate.provenance, tskit.provenance.get_resources and schema validation"],
                "stubbed": ["time module of tsdate.core/util/variational and tskit.provenance -> virtual clock with "
                            "jumps"]}

    def expected_probes(self, tier):
        return ["probe.chain_of_3_recorded", "probe.record_off", "probe.clock_jump_during_call",
                "probe.backwards_elapsed", "probe.preprocess_then_date", "probe.named_method",
                "probe.exact_repeat_of_previous_call"]

    def run(self, tape):
        M = _setup()
        tsdate, tskit = M["tsdate"], M["tskit"]
        res = blank_result()
        stats = res["stats"]
        log = EventLog()
        ts, mu, info = gen_pipe_input(tape, for_preprocess=tape.chance("for_pre", 0.5))
        log.add("TS", sorted(info.items()), mu)
        clk = JumpClock(tick=tape.pick("tick", [0.001, 0.25, 0.0, 1e-6]))
        undo, patched = vclock.install(clk, M["clock_modules"])
        if len(patched) < 3:
            undo()
            raise HarnessError(f"seam mismatch: only {patched} read the clock through a module attribute `time`")
        results = [ts]
        n_recorded = 0
        last_kind = None
        last_call = None
        try:
            n_ops = 1 + tape.choose("n_ops", 8)
            for opi in range(n_ops):
                src = results[tape.choose("input", len(results))] if tape.chance("older_input", 0.25) else results[-1]
                if tape.chance("jump_between", 0.3):
                    clk.advance(tape.pick("dt_between", [3600.0, -1e6, 86400.0 * 365, -0.5]))
                kind = tape.pick("op", ["date", "named", "preprocess", "date", "named"])
                rec_mode = tape.pick("record", ["omit", "omit", True, None, False, False])
                kw = {}
                if rec_mode != "omit":
                    kw["record_provenance"] = rec_mode
                recording = rec_mode is not False
                passed = {}
                if kind == "preprocess":
                    command = "preprocess_ts"
                    if tape.chance("pp_gap", 0.5):
                        passed["minimum_gap"] = tape.pick("min_gap", [10.0, 100.0, 1e6])
                    if tape.chance("pp_flanks", 0.5):
                        passed["erase_flanks"] = bool(tape.pick("erase_flanks", [0, 1]))
                    if tape.chance("pp_split", 0.5):
                        passed["split_disjoint"] = bool(tape.pick("split_disjoint", [0, 1]))
                    fn = tsdate.preprocess_ts
                    call_kw = dict(passed, **kw)
                else:
                    method = tape.pick("method", ["variational_gamma", "inside_outside", "maximization",
                                                  "variational_gamma"])
                    command = method
                    passed["mutation_rate"] = mu
                    if tape.chance("time_units", 0.3):
                        passed["time_units"] = tape.pick("tu", ["years", "generations"])
                    if tape.chance("progress", 0.2):
                        passed["progress"] = False
                    if method == "variational_gamma":
                        if tape.chance("vg_it", 0.7):
                            passed["max_iterations"] = 1 + tape.choose("iters", 4)
                        if tape.chance("vg_resc", 0.6):
                            passed["rescaling_intervals"] = tape.pick("resc", [0, 5, 100])
                        if tape.chance("vg_shape", 0.3):
                            passed["max_shape"] = tape.pick("shape", [50.0, 1000.0])
                        if tape.chance("vg_seg", 0.2):
                            passed["match_segregating_sites"] = True
                    else:
                        passed["population_size"] = tape.pick("Ne", [1.0, 100.0])
                        if tape.chance("eps", 0.3):
                            passed["eps"] = 1e-6
                        if tape.chance("space", 0.4):
                            passed["probability_space"] = tape.pick("space_v", ["linear", "logarithmic"])
                        if tape.chance("threads", 0.2):
                            passed["num_threads"] = 1
                        if method == "inside_outside" and tape.chance("ior", 0.2):
                            passed["ignore_oldest_root"] = True
                    extra = {}
                    if tape.chance("mbl", 0.2):
                        extra["min_branch_length"] = 1e-4
                    if kind == "named":
                        fn = getattr(tsdate, method)
                        call_kw = dict(passed, **extra, **kw)
                        stats["probe.named_method"] += 1
                    else:
                        fn = tsdate.date
                        call_kw = dict(passed, **extra, **kw)
                        if not (method == "variational_gamma" and tape.chance("method_default", 0.5)):
                            call_kw["method"] = method  # date(method=None) -> variational_gamma
                        else:
                            stats["probe.date_default_method"] += 1
                # re-running the previous step unchanged is what pipelines do after a failure downstream
                if last_call is not None and tape.chance("repeat_exact", 0.15):
                    kind, fn, call_kw, passed, command, recording = last_call
                    stats["probe.exact_repeat_of_previous_call"] += 1
                last_call = (kind, fn, call_kw, passed, command, recording)
                # a clock step during the call
                clk.jumped = False
                if tape.chance("jump_during", 0.3):
                    clk.jump_at = (clk.reads + 1 + tape.choose("jump_read", 6), tape.pick("dt_during", [-1e6, 5.0, -0.75, 1e9]))
                first_read = len(clk.values)
                before = prov_records(src)
                try:
                    out = fn(src, **call_kw)
                except Exception as e:  # noqa: BLE001 - a failing call appends nothing to anything; not C33's business
                    stats["calls_raised_" + type(e).__name__] += 1
                    log.add("OP", opi, command, "raised", type(e).__name__)
                    clk.jump_at = None
                    continue
                clk.jump_at = None
                if clk.jumped:
                    stats["probe.clock_jump_during_call"] += 1
                after = prov_records(out)
                reads = clk.values[first_read:]
                log.add("OP", opi, command, sorted((k, str(v)) for k, v in call_kw.items()), len(before), len(after))
                site = ("preprocess_ts" if kind == "preprocess" else ("date" if kind == "date" else "named-method"))
                v = self.judge(tskit, before, after, recording, command, passed, reads, stats, site, n_recorded)
                if v:
                    res["violations"].append(v)
                    break
                if recording:
                    n_recorded += 1
                    if n_recorded >= 3:
                        stats["probe.chain_of_3_recorded"] += 1
                    if last_kind == "preprocess" and kind != "preprocess":
                        stats["probe.preprocess_then_date"] += 1
                else:
                    stats["probe.record_off"] += 1
                last_kind = kind
                results.append(out)
        finally:
            undo()
        res["events"] = len(results) - 1
        res["sim_time"] = clk.now - 1_700_000_000.0
        res["digest"] = log.digest()
        res["trace"] = log.head[:40]
        res["nontrivial"] = bool(n_recorded >= 2 or stats.get("probe.clock_jump_during_call"))
        res["states"].append(log.digest())
        return res

    _allowed = {}

    def allowed_keys(self, command):
        a = self._allowed.get(command)
        if a is None:
            import inspect

            M = _setup()
            tsdate = M["tsdate"]
            core = tsdate.core
            fns = []
            if command == "preprocess_ts":
                import tskit

                fns = [tsdate.preprocess_ts, tskit.TableCollection.simplify]
            else:
                fns = [tsdate.date, getattr(tsdate, command), core.EstimationMethod.__init__]
                for cls in vars(core).values():
                    if isinstance(cls, type) and getattr(cls, "name", None) == command and hasattr(cls, "run"):
                        fns += [cls.run, cls.__init__]
            a = {"command"}
            for f in fns:
                a |= {n for n in inspect.signature(f).parameters if n not in ("self", "kwargs", "args")}
            self._allowed[command] = a
        return a

    def judge(self, tskit, before, after, recording, command, passed, reads, stats, site, n_recorded):
        if not recording:
            if after != before:
                return violation("record-off-changed-table", site,
                                 f"{command}(record_provenance=False): provenance table went from {len(before)} to "
                                 f"{len(after)} rows / changed content")
            return None
        if len(after) != len(before) + 1:
            return violation("not-exactly-one-record", site,
                             f"{command} with recording on: provenance rows {len(before)} -> {len(after)} (chain "
                             f"position: {n_recorded} tsdate records already present)")
        if after[:len(before)] != before:
            return violation("earlier-records-not-kept", site,
                             f"{command}: the first {len(before)} provenance rows are not byte-identical to the input's")
        try:
            rec = json.loads(after[-1][1])
            tskit.validate_provenance(rec)
        except Exception as e:  # noqa: BLE001
            return violation("invalid-record", site, f"{command}: new provenance record does not validate: {e}")
        if rec.get("software", {}).get("name") != "tsdate":
            return violation("wrong-software-name", site, f"{command}: software.name={rec.get('software')}")
        par = rec.get("parameters", {})
        if par.get("command") != command:
            return violation("wrong-command", site,
                             f"record names command {par.get('command')!r} but {command!r} was run")
        # "the parameters used": nothing that is not a parameter of the code that ran.  The allowed names are read from
        # the signatures of the functions involved (so a parameter the maintainers start recording is never foreign);
        # what this catches is state leaking from EARLIER calls into the record (a chain effect).
        foreign = sorted(set(par) - self.allowed_keys(command))
        if foreign:
            return violation("foreign-parameter", site,
                             f"{command}: the record carries parameters that are not parameters of {command}: "
                             f"{ {k: par[k] for k in foreign} } (left over from earlier calls in this process?)")
        for k, val in passed.items():
            if k not in par:
                return violation("parameter-missing", site + ":" + k,
                                 f"{command}: parameter {k}={val!r} was passed but is not in the record (keys: {sorted(par)})")
            if par[k] != val and not (isinstance(val, float) and isinstance(par[k], (int, float)) and float(par[k]) == val):
                return violation("parameter-wrong-value", site + ":" + k,
                                 f"{command}: parameter {k} was passed as {val!r} but recorded as {par[k]!r}")
        el = rec.get("resources", {}).get("elapsed_time")
        if not isinstance(el, (int, float)) or isinstance(el, bool) or el != el:
            return violation("bad-elapsed-time", site, f"{command}: resources.elapsed_time={el!r}")
        if reads:
            # any (later reading) - (earlier reading) of this call: which read is the start is an implementation detail
            ok = any(el == reads[j] - reads[i] for i in range(len(reads)) for j in range(i + 1, len(reads))) or (
                len(reads) == 1 and el == 0)
            if not ok:
                # how elapsed time is measured is not part of the statement ("a valid record"): recorded, not judged
                stats["probe.elapsed_time_not_a_difference_of_clock_readings"] += 1
            if el < 0:
                stats["probe.backwards_elapsed"] += 1
        stats["records_validated"] += 1
        return None


# ============================================================================
# C34
# ============================================================================
TRUE_WORDS = ["True", "true", "1", "yes"]
FALSE_WORDS = ["False", "false", "0", "no"]


class C34Engine(Engine):
    prop = "C34"
    name = "pipe"

    @staticmethod
    def same_violation(v, cls, site):
        """For minimisation: same class at the same sub-command; the option mix may shrink."""
        return v["cls"] == cls and v["site"].split(":")[0] == site.split(":")[0] and (
            cls != "invalid-invocation-succeeded" or v["site"] == site)

    level = "exploration"
    chunk = 8
    selftest_m = {"quick": 12, "thorough": 48}

    def prepare(self, tier):
        _setup()

    def n_runs(self, tier):
        return {"quick": 1200, "thorough": 80000}[tier]

    def rule(self):
        return ("Each run: a real scratch directory with 1-2 generated .trees inputs and a history of 2-7 operations: "
                "`tsdate date` / `tsdate preprocess` through cli.tsdate_main(argv) in process with tape-chosen options "
                "(every option of both sub-parsers, booleans on and off in several spellings, numeric options at "
                "non-default values, methods x probability spaces x threads), invalid combinations, input faults "
                "(truncate at offset, flip a byte, empty, delete), pre-existing outputs, output == input. After every "
                "operation the directory is compared with the model: a valid invocation must leave exactly the twin "
                "API call's tree sequence (provenance compared without resources/timestamps) and touch nothing else; "
                "an invalid one (twin API call raises, option unparsable, input unloadable) must exit non-zero and "
                "leave the directory byte-identical. Non-trivial = an operation after a fault, an invalid "
                "combination, or a boolean switched off; distinct = event-log digest.")

    def assumptions(self):
        return ["tskit writes .trees files in C through real file descriptors: torn/failed writes of the OUTPUT cannot "
                "be injected from Python; faults are injected on inputs and on the pre-existing state of the sandbox",
                "an exception escaping tsdate_main counts as a non-zero exit (the interpreter turns it into status 1)",
                "boolean spellings: True/true/1/yes mean on, False/false/0/no mean off; a parser that rejects a "
                "spelling (non-zero exit, no output) is accepted"]

    def components(self):
        return {"real": ["tsdate.cli (parser, run_date, run_preprocess, error_exit) in process", "tsdate public API "
                         "for the twin call", "tskit.load / TreeSequence.dump on a real scratch directory"],
                "stubbed": ["the process boundary (tsdate_main is called in process; SystemExit and escaping exceptions "
                            "are mapped to exit statuses)", "time -> virtual clock"]}

    def expected_probes(self, tier):
        return ["probe.bool_off", "probe.invalid_combination", "probe.input_fault_unloadable", "probe.output_preexisting",
                "probe.output_is_input", "probe.valid_date_compared", "probe.valid_preprocess_compared",
                "probe.split_disjoint_matters", "probe.erase_flanks_matters", "probe.flip_still_loads"]

    # ------------------------------------------------------------------
    def run(self, tape):
        M = _setup()
        tsdate, tskit, cli = M["tsdate"], M["tskit"], M["cli"]
        res = blank_result()
        stats = res["stats"]
        log = EventLog()
        clk = vclock.VClock(tick=tape.pick("tick", [0.001, 0.0]))
        undo, _ = vclock.install(clk, M["clock_modules"])
        box = tempfile.mkdtemp(prefix="verif-c34-")
        try:
            files = {}
            n_in = 1 + tape.choose("n_inputs", 2)
            mus = {}
            for i in range(n_in):
                ts, mu, info = gen_pipe_input(tape, for_preprocess=True)
                name = f"in{i}.trees"
                ts.dump(os.path.join(box, name))
                mus[name] = mu
                log.add("INPUT", name, sorted(info.items()), mu)
            model = self.snapshot(box)
            flipped = set()
            n_ops = 2 + tape.choose("n_ops", 6)
            for opi in range(n_ops):
                kind = tape.pick("op", ["date", "preprocess", "date", "preprocess", "fault", "plant_output"])
                names = sorted(model)
                if kind == "fault" and not names:
                    continue
                if kind == "fault":
                    name = tape.pick("victim", names)
                    data = model[name]
                    f = tape.pick("fault", ["truncate", "flip", "empty", "delete"])
                    path = os.path.join(box, name)
                    if f == "truncate" and len(data) > 1:
                        k = tape.choose("trunc_at", len(data))
                        with open(path, "wb") as fh:
                            fh.write(data[:k])
                    elif f == "flip" and data:
                        k = tape.choose("flip_at", len(data))
                        if 12 <= k < 16 and len(data) > 64:
                            # bytes 12-15 of a kastore file are `num_items`; with a high bit set there, kastore's
                            # kastore_close() loops over billions of non-existent items after the failed load, i.e.
                            # tskit.load never returns (seen once: VERIF_SEED=13, run 967).  A third-party hang on
                            # corrupt input is not something C34 speaks about, and it would stall the batch.
                            k = 16
                            stats["probe.flip_moved_off_kastore_num_items"] += 1
                        b = bytearray(data)
                        b[k] ^= 1 << tape.choose("bit", 8)
                        with open(path, "wb") as fh:
                            fh.write(bytes(b))
                        flipped.add(name)
                    elif f == "empty":
                        open(path, "wb").close()
                    else:
                        os.remove(path)
                    stats["fault.input_" + f] += 1
                    log.add("FAULT", name, f)
                    model = self.snapshot(box)
                    continue
                if kind == "plant_output":
                    name = f"out{tape.choose('plant', 3)}.trees"
                    with open(os.path.join(box, name), "wb") as fh:
                        fh.write(b"previous run output " + bytes([opi]))
                    model = self.snapshot(box)
                    log.add("PLANT", name)
                    continue
                # ---- a CLI operation -------------------------------------------------------------
                inp = tape.pick("input", names + ["missing.trees"]) if tape.chance("odd_input", 0.15) else tape.pick(
                    "input", [n for n in names if n.endswith(".trees")] or names or ["missing.trees"])
                out_choice = tape.pick("out", ["new", "new", "existing", "same"])
                if out_choice == "same":
                    outp = inp
                    stats["probe.output_is_input"] += 1
                elif out_choice == "existing" and names:
                    outp = tape.pick("out_existing", names)
                else:
                    outp = f"out{tape.choose('out_n', 3)}.trees"
                if outp in model and outp != inp:
                    stats["probe.output_preexisting"] += 1
                mu = mus.get(inp, 1e-3)
                argv, twin, expect_invalid, flags = (self.draw_date(tape, inp, outp, mu) if kind == "date"
                                                     else self.draw_preprocess(tape, inp, outp))
                argv_full = [argv[0], os.path.join(box, inp), os.path.join(box, outp)] + argv[1:]
                # the twin: what the Python API does with the same option values
                in_path = os.path.join(box, inp)
                api = None
                try:
                    ts_in = tskit.load(in_path)
                    loaded = True
                except Exception as e:  # noqa: BLE001
                    loaded = False
                    api = ("unloadable", type(e).__name__)
                    stats["probe.input_fault_unloadable"] += 1
                if loaded:
                    if inp in flipped:
                        stats["probe.flip_still_loads"] += 1
                    if twin is None:
                        api = ("invalid", "parser")
                    else:
                        try:
                            with _quiet():
                                api = ("ok", twin(tsdate, ts_in))
                        except Exception as e:  # noqa: BLE001
                            api = ("raised", type(e).__name__, str(e)[:100])
                # the CLI
                before = model
                status, msg = self.run_cli(cli, argv_full)
                after = self.snapshot(box)
                log.add("CLI", opi, argv[0], argv[1:], inp, outp, status, api[0], api[1] if api[0] != "ok" else "")
                for fl in flags:
                    stats["probe." + fl] += 1
                site = argv[0]
                if api[0] == "ok":
                    if status != 0:
                        res["violations"].append(violation(
                            "cli-failed-but-api-succeeds", site + self.site_of(flags),
                            f"`tsdate {' '.join(argv[:1] + [inp, outp] + argv[1:])}` exited with {status} ({msg}) but "
                            f"the Python call with the same option values succeeds"))
                        break
                    v = self.compare_output(tskit, box, outp, api[1], before, after, argv, inp, flags, stats)
                    if v:
                        res["violations"].append(v)
                        break
                    stats["probe.valid_" + argv[0] + "_compared"] += 1
                    if argv[0] == "preprocess" and "bool_off" in flags:
                        # reach probe: did switching the boolean off matter on this input?
                        for opt in ("erase_flanks", "split_disjoint"):
                            if twin.kw.get(opt) is False:
                                try:
                                    with _quiet():
                                        alt = tsdate.preprocess_ts(ts_in, **dict(twin.kw, **{opt: True}))
                                    if not alt.tables.equals(api[1].tables, ignore_provenance=True):
                                        stats["probe." + opt + "_matters"] += 1
                                except Exception:  # noqa: BLE001
                                    pass
                else:
                    if api[0] != "unloadable":
                        stats["probe.invalid_combination"] += 1
                    if status == 0:
                        # site = the condition that makes the invocation invalid (what the API says), not the option mix
                        why = ("input-unloadable" if api[0] == "unloadable" else "parser-must-reject" if api[0] == "invalid"
                               else f"api-raises-{api[1]}:{api[2][:40].strip()}")
                        res["violations"].append(violation(
                            "invalid-invocation-succeeded", site + ":" + why,
                            f"`tsdate {' '.join(argv[:1] + [inp, outp] + argv[1:])}` exited 0 although "
                            f"{'the input does not load' if api[0] == 'unloadable' else 'the Python call with the same option values raises ' + str(api[1:])}"))
                        break
                    if after != before:
                        changed = sorted(k for k in set(after) | set(before) if after.get(k) != before.get(k))
                        res["violations"].append(violation(
                            "failed-invocation-wrote-files", site + self.site_of(flags),
                            f"`tsdate {' '.join(argv[:1] + [inp, outp] + argv[1:])}` failed (status {status}) but "
                            f"changed {changed} in the output directory"))
                        break
                model = after
        finally:
            undo()
            shutil.rmtree(box, ignore_errors=True)
        res["events"] = stats.get("probe.valid_date_compared", 0) + stats.get("probe.valid_preprocess_compared", 0)
        res["digest"] = log.digest()
        res["trace"] = log.head[:40]
        res["nontrivial"] = bool(stats.get("probe.invalid_combination") or stats.get("probe.bool_off")
                                 or any(k.startswith("fault.") for k in stats))
        res["states"].append(log.digest())
        return res

    @staticmethod
    def site_of(flags):
        # the most specific culprit first: a boolean switched off, else the set of non-default options
        keep = [f for f in flags if f.startswith("bool_") and f.endswith("_off")]
        if not keep:
            keep = [f for f in flags if f.startswith(("opt_", "bool_"))]
        return (":" + "+".join(sorted(keep))) if keep else ""

    @staticmethod
    def snapshot(box):
        out = {}
        for name in sorted(os.listdir(box)):
            with open(os.path.join(box, name), "rb") as fh:
                out[name] = fh.read()
        return out

    @staticmethod
    def run_cli(cli, argv):
        err = io.StringIO()
        try:
            with contextlib.redirect_stderr(err), contextlib.redirect_stdout(io.StringIO()):
                cli.tsdate_main(argv)
            return 0, ""
        except SystemExit as e:
            code = e.code
            if code is None or code == 0:
                return 0, ""
            return (code if isinstance(code, int) else 1), str(code)[:200] or err.getvalue()[-200:]
        except Exception as e:  # noqa: BLE001 - an escaping exception is exit status 1 for the shell
            return 1, f"{type(e).__name__}: {e}"[:200]

    # ---- option generators ----------------------------------------------------------------------
    def draw_date(self, tape, inp, outp, mu):
        """Returns (argv without paths, twin(tsdate, ts) -> ts or None when the parser must reject, expect_invalid,
        probe flags)."""
        argv = ["date"]
        flags = []
        kw = {}
        method = tape.pick("method", ["variational_gamma", "default", "inside_outside", "maximization"])
        if method != "default":
            argv += ["--method", method]
            kw["method"] = method
        eff = "variational_gamma" if method == "default" else method
        if not tape.chance("omit_mu", 0.05):
            argv += [tape.pick("mu_flag", ["-m", "--mutation-rate"]), repr(mu)]
            kw["mutation_rate"] = mu
        else:
            kw["mutation_rate"] = None
            flags.append("opt_no_mutation_rate")
        discrete = eff != "variational_gamma"
        # options that belong to the method (usually) and options that do not (sometimes)
        if tape.chance("popsize", 0.9 if discrete else 0.1):
            text, ne = tape.pick("Ne", [("1.0", 1.0), ("100.0", 100.0), ("0.5", 0.5), ("1e2", 100.0), ("5e-1", 0.5),
                                        ("100", 100.0)])
            argv += [tape.pick("n_flag", ["-n", "--population_size"]), text]
            kw["population_size"] = ne
            flags.append("opt_population_size")
        if tape.chance("threads", 0.3 if discrete else 0.08):
            t = tape.pick("t", [1, 2, 0])
            argv += [tape.pick("t_flag", ["-t", "--num-threads"]), str(t)]
            kw["num_threads"] = t
            flags.append("opt_num_threads")
        if tape.chance("space", 0.4 if discrete else 0.08):
            sp = tape.pick("space_v", ["linear", "logarithmic"])
            argv += ["--probability-space", sp]
            kw["probability_space"] = sp
            flags.append("opt_probability_space")
        if tape.chance("eps", 0.3 if discrete else 0.1):
            text, e = tape.pick("eps_v", [("1e-06", 1e-6), ("1e-10", 1e-10), ("0.0", 0.0), ("0.000001", 1e-6), ("0", 0.0)])
            argv += [tape.pick("e_flag", ["-e", "--epsilon"]), text]
            kw["eps"] = e
            flags.append("opt_epsilon")
        if tape.chance("iters", 0.5 if not discrete else 0.08):
            it = tape.pick("it", [1, 2, 3, 4, 0])  # 0: the API rejects it, so must the CLI
            argv += ["--max-iterations", str(it)]
            kw["max_iterations"] = it
            flags.append("opt_max_iterations")
        if tape.chance("resc", 0.5 if not discrete else 0.08):
            r = tape.pick("resc_v", [0, 5, 100])
            argv += ["--rescaling-intervals", str(r)]
            kw["rescaling_intervals"] = r
            flags.append("opt_rescaling_intervals")
        if tape.chance("mbl", 0.3):
            text, b = tape.pick("mbl_v", [("0.0001", 1e-4), ("0.5", 0.5), ("1e-12", 1e-12), ("5e-1", 0.5), ("1E-4", 1e-4)])
            argv += [tape.pick("b_flag", ["-b", "--min-branch-length"]), text]
            kw["min_branch_length"] = b
            flags.append("opt_min_branch_length")
        if tape.chance("rec", 0.05):
            argv += ["-r", "1e-8"]
            kw["recombination_rate"] = 1e-8
            flags.append("opt_recombination_rate")
        if tape.chance("progress", 0.1):
            argv += ["-p"]
            kw["progress"] = True
            flags.append("opt_progress")
        if tape.chance("verbose", 0.1):
            argv += ["-v"]
        parser_reject = False
        if tape.chance("deprecated_pos", 0.04):
            argv = ["date", "10000"] + argv[1:]  # lands after the two paths: deprecated positional population size
            flags.append("opt_deprecated_positional")
            parser_reject = True
        if tape.chance("bad_method", 0.03):
            argv += ["--method", "no_such_method"]
            parser_reject = True
        if tape.chance("bad_number", 0.03):
            argv += ["--max-iterations", "many"]
            parser_reject = True

        def twin(tsdate, ts):
            return tsdate.date(ts, **kw)

        return argv, (None if parser_reject else twin), parser_reject, flags

    def draw_preprocess(self, tape, inp, outp):
        argv = ["preprocess"]
        flags = []
        kw = {}
        parser_reject = False
        if tape.chance("gap", 0.5):
            # the same number in several legal spellings: what reaches the API must be the value, whatever the text
            text, g = tape.pick("gap_v", [("10.0", 10.0), ("100.0", 100.0), ("1e6", 1e6), ("3", 3.0), ("105e-1", 10.5),
                                          ("25E-1", 2.5), ("1000000", 1e6), ("5e-1", 0.5), ("1.05e1", 10.5)])
            argv += ["--minimum_gap", text]
            kw["minimum_gap"] = g
            flags.append("opt_minimum_gap")
        if tape.chance("flanks", 0.6):
            on = bool(tape.pick("flanks_on", [0, 1, 0]))
            word = tape.pick("flanks_word", TRUE_WORDS if on else FALSE_WORDS)
            argv += [tape.pick("flanks_flag", ["--erase-flanks", "--trim_telomeres"]), word]
            kw["erase_flanks"] = on
            flags.append("bool_erase_flanks_" + ("on" if on else "off"))
            if not on:
                flags.append("bool_off")
        if tape.chance("split", 0.6):
            on = bool(tape.pick("split_on", [0, 1, 0]))
            word = tape.pick("split_word", TRUE_WORDS if on else FALSE_WORDS)
            argv += ["--split-disjoint", word]
            kw["split_disjoint"] = on
            flags.append("bool_split_disjoint_" + ("on" if on else "off"))
            if not on:
                flags.append("bool_off")
        if tape.chance("verbose", 0.1):
            argv += ["-v"]
        if tape.chance("bad_number", 0.03):
            argv += ["--minimum_gap", "wide"]
            parser_reject = True

        def twin(tsdate, ts):
            return tsdate.preprocess_ts(ts, **kw)

        twin.kw = kw
        return argv, (None if parser_reject else twin), parser_reject, flags

    # ---- comparison -------------------------------------------------------------------------------
    def compare_output(self, tskit, box, outp, api_ts, before, after, argv, inp, flags, stats):
        site = argv[0] + self.site_of(flags)
        cmdline = f"`tsdate {' '.join(argv[:1] + [inp, outp] + argv[1:])}`"
        others = sorted(k for k in set(after) | set(before) if k != outp and after.get(k) != before.get(k))
        if others:
            return violation("other-files-touched", site, f"{cmdline} changed {others} besides its output")
        if outp not in after:
            return violation("no-output-written", site, f"{cmdline} exited 0 but wrote no {outp}")
        try:
            got = tskit.load(os.path.join(box, outp))
        except Exception as e:  # noqa: BLE001
            return violation("output-unloadable", site, f"{cmdline} exited 0 but {outp} does not load: {e}")
        if not got.tables.equals(api_ts.tables, ignore_provenance=True):
            dn = None
            if got.num_nodes == api_ts.num_nodes:
                dn = float(np.max(np.abs(got.nodes_time - api_ts.nodes_time))) if got.num_nodes else 0.0
            return violation(
                "output-differs-from-api", site,
                f"{cmdline}: the written tree sequence is not the one the Python call with the same option values "
                f"returns (nodes {got.num_nodes} vs {api_ts.num_nodes}, edges {got.num_edges} vs {api_ts.num_edges}, "
                f"sequence_length {got.sequence_length} vs {api_ts.sequence_length}, max |dt|={dn})")
        pa, pb = _prov_norm(got), _prov_norm(api_ts)
        if pa != pb:
            return violation("provenance-differs-from-api", site,
                             f"{cmdline}: provenance records (without resources/timestamps) differ from the API's: "
                             f"{pa[-1:]} vs {pb[-1:]}")
        # reach probes: did the boolean actually matter on this input?
        return None


def _prov_norm(ts):
    import tskit

    out = []
    pt = ts.tables.provenances
    for raw in tskit.unpack_bytes(pt.record, pt.record_offset):
        try:
            r = json.loads(raw.decode())
        except ValueError:  # includes UnicodeDecodeError: a flipped byte inside an old record is just data
            out.append(repr(raw))
            continue
        if not isinstance(r, dict):
            out.append(repr(raw))
            continue
        r.pop("resources", None)
        par = r.get("parameters")
        if isinstance(par, dict) and par.get("progress") in (None, False):
            par["progress"] = False
        out.append(json.dumps(r, sort_keys=True))
    return out


@contextlib.contextmanager
def _quiet():
    with contextlib.redirect_stderr(io.StringIO()), contextlib.redirect_stdout(io.StringIO()):
        yield
