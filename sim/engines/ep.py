"""`ep` engine: message-level expectation-propagation stepper with fault
injection.  Serves C21 (bookkeeping), C05 (proper capped posteriors) and C20
(exactness in the conjugate case, with an executable reference model).

The stepper builds the REAL ExpectationPropagation object and replaces only
the orchestration of iterate(): blocks in block_order, edges in edge_order,
propagate_prior, _rescale_factors - the shipped order - but one message per
kernel call (edge_order=np.array([i])).  Fault kinds (tape choices before a
delivery): `skip` (that row of `likelihoods` is NaN, which drives the real
invalid-projection path of the approx.* wrappers) and `rescale` (the real
_rescale_factors is called first).  Message reordering / duplication / loss
are NOT injected: the shipped schedule is fixed (DESIGN.md 3.5).
"""

import hashlib
import os
import traceback

import numpy as np

from .. import workload
from ..runner import Engine, HarnessError, blank_result, violation
from ..tape import EventLog, Tape

TOL = 1e-9  # relative to the running high-water mark H[u] (DESIGN.md 4, C21)
TOL_OBSERVED = 1e-7  # real iterate() calls: H is only sampled at iteration ends

_M = {}  # lazily imported modules / compiled helpers


def _setup():
    if _M:
        return _M
    import numba
    import tskit

    import tsdate
    import tsdate.core
    import tsdate.variational as variational

    repo = os.path.realpath(os.environ.get("TSDATE_REPO", "/repo"))
    if not os.path.realpath(tsdate.__file__).startswith(repo):
        raise HarnessError(f"tsdate imported from {tsdate.__file__}, expected under {repo}")
    EP = variational.ExpectationPropagation
    for name in ("propagate_likelihood", "propagate_prior", "propagate_mutations", "iterate", "infer",
                 "node_moments"):
        if not hasattr(EP, name):
            raise HarnessError(f"seam mismatch: ExpectationPropagation.{name} is gone")
    for name in ("_rescale_factors", "_assemble_factors", "USE_BLOCK_LIKELIHOOD", "USE_EDGE_LIKELIHOOD"):
        if not hasattr(variational, name):
            raise HarnessError(f"seam mismatch: variational.{name} is gone")

    @numba.njit(cache=False)
    def conservation(edge, block, node, scale, ep_, ec_, bj_, bk_, posterior, H, tol):
        """Independent re-statement of 'posterior == scale * sum of all messages addressed to the node'.
        Updates the running high-water mark H in place.  Returns (worst_node, worst_col, err, H, lhs, rhs)."""
        n = scale.size
        tot = np.zeros((n, 2))
        mag = np.zeros((n, 2))
        for i in range(ep_.size):
            p = ep_[i]
            c = ec_[i]
            for t in range(2):
                tot[p, t] += edge[i, 0, t]
                mag[p, t] += abs(edge[i, 0, t])
                tot[c, t] += edge[i, 1, t]
                mag[c, t] += abs(edge[i, 1, t])
        for i in range(bj_.size):
            j = bj_[i]
            k = bk_[i]
            for t in range(2):
                tot[j, t] += block[i, 0, t]
                mag[j, t] += abs(block[i, 0, t])
                tot[k, t] += block[i, 1, t]
                mag[k, t] += abs(block[i, 1, t])
        wu, wt = -1, -1
        werr, wH, wl, wr = 0.0, 0.0, 0.0, 0.0
        wratio = -1.0
        for u in range(n):
            for t in range(2):
                tt = tot[u, t] + node[u, 0, t] + node[u, 1, t]
                mm = mag[u, t] + abs(node[u, 0, t]) + abs(node[u, 1, t])
                rhs = scale[u] * tt
                m = abs(posterior[u, t]) + abs(scale[u]) * mm
                if m > H[u, t]:
                    H[u, t] = m
                err = abs(posterior[u, t] - rhs)
                # natural parameter 0 is shape-1: its meaningful magnitude is never below 1
                Hf = H[u, t] if t == 1 else max(H[u, t], 1.0)
                if not (err <= tol * Hf):
                    ratio = err / Hf if Hf > 0 else np.inf
                    if not (ratio <= wratio):
                        wratio = ratio
                        wu, wt, werr, wH, wl, wr = u, t, err, Hf, posterior[u, t], rhs
        return wu, wt, werr, wH, wl, wr

    _M.update(dict(tsdate=tsdate, variational=variational, EP=EP, tskit=tskit, conservation=conservation,
                   core=tsdate.core))
    # warm up the helper
    z = np.zeros((1, 2, 2))
    conservation(z, z[:0], z, np.ones(1), np.zeros(1, np.int32), np.zeros(1, np.int32), np.zeros(0, np.int32),
                 np.zeros(0, np.int32), np.zeros((1, 2)), np.zeros((1, 2)), TOL)
    import logging
    import warnings

    logging.getLogger().setLevel(logging.ERROR)
    logging.getLogger("tsdate").setLevel(logging.ERROR)
    warnings.simplefilter("ignore")
    workload.warm_up()
    return _M


class Abort(Exception):
    def __init__(self, why):
        super().__init__(why)
        self.why = why


class Stepper:
    """One message per kernel call over a real ExpectationPropagation object."""

    def __init__(self, ts, mu, singletons_phased, cfg, tape, log, res, checks, suppress_rescale=False):
        M = _setup()
        self.M = M
        self.v = M["variational"]
        self.ep = M["EP"](ts, mutation_rate=mu, singletons_phased=singletons_phased)
        self.cfg = cfg
        self.tape = tape
        self.log = log
        self.res = res
        self.checks = checks  # set of {"conservation", "proper"}
        self.suppress_rescale = suppress_rescale
        ep = self.ep
        self.nan_edge = np.full_like(ep.edge_likelihoods, np.nan)
        self.nan_block = np.full_like(ep.block_likelihoods, np.nan)
        self.H = np.zeros((ts.num_nodes, 2))
        c = ep.node_constraints
        self.fixed = c[:, 0] == c[:, 1]
        self.one = np.zeros(1, dtype=np.int32)
        self.viol = []
        self.n_deliveries = 0
        self.faults_fired = 0
        self.rescales_fired = 0
        self.on_delivery = None  # optional callback(kind, i) after each delivery (C20 reference model)
        self.fixed_mask_edges = None

    # -- faults -------------------------------------------------------------
    def draw_fault(self):
        ps, pr = self.cfg["p_skip"], self.cfg["p_rescale"]
        if ps <= 0 and pr <= 0:
            return None
        R = Tape.RES
        v = self.tape.choose("fault", R)
        ks, kr = int(ps * R), int(pr * R)
        if v >= R - ks:
            return "skip"
        if v >= R - ks - kr:
            return "rescale"
        return None

    def stat(self, k, n=1):
        self.res["stats"][k] += n

    # -- invariants ---------------------------------------------------------
    def check(self, where):
        ep = self.ep
        f = ep.factors
        if "conservation" in self.checks:
            wu, wt, werr, wH, wl, wr = self.M["conservation"](
                f.edge, f.block, f.node, f.scale, ep.edge_parents, ep.edge_children, ep.block_nodes[0],
                ep.block_nodes[1], ep.node_posterior, self.H, TOL)
            if wu >= 0:
                self.viol.append(violation(
                    "conservation", where.split(":")[0],
                    f"after {where}: node {wu} natural parameter {wt}: posterior={wl!r} but scale*sum(messages)="
                    f"{wr!r} (|diff|={werr:.3e}, bound={TOL:g}*H={TOL * wH:.3e}, H={wH:.3e}, fixed={bool(self.fixed[wu])})"))
                raise Abort("violation")
        if "proper" in self.checks:
            post = ep.node_posterior
            free = ~self.fixed
            ms = self.cfg["max_shape"]
            a, b = post[free, 0], post[free, 1]
            zero = (a == 0.0) & (b == 0.0)
            shape = a + 1.0
            # (the code also keeps shape >= 1/max_shape; the statement only caps it from above, so that is recorded as a
            # probe, not demanded)
            ok = zero | (np.isfinite(a) & np.isfinite(b) & (shape > 0) & (b > 0) & (shape <= ms * (1 + 1e-9)))
            if np.any(~zero & (shape < (1 - 1e-9) / ms)):
                self.stat("probe.shape_below_lower_bound")
            if not np.all(ok):
                u = np.flatnonzero(free)[np.flatnonzero(~ok)[0]]
                self.viol.append(violation(
                    "improper-state", where.split(":")[0],
                    f"after {where}: free node {u} has natural parameters {post[u].tolist()} (shape {post[u, 0] + 1!r}, "
                    f"rate {post[u, 1]!r}): neither (0,0) nor a proper gamma with shape <= max_shape={ms}"))
                raise Abort("violation")

    # -- deliveries ---------------------------------------------------------
    def rescale_now(self, where):
        ep = self.ep
        before = ep.node_posterior.copy()
        self.v._rescale_factors(ep.factors)
        if not np.array_equal(before, ep.node_posterior, equal_nan=True):
            self.viol.append(violation("rescale-changed-posterior", where.split(":")[0],
                                       f"{where}: _rescale_factors modified the posterior array"))
            raise Abort("violation")
        if not np.all(ep.factors.scale == 1.0):
            self.stat("probe.scale_not_reset_by_rescale")
        self.check(where)

    def deliver(self, unphased, i):
        ep, cfg = self.ep, self.cfg
        fault = self.draw_fault()
        kind = "block" if unphased else "edge"
        if fault == "rescale":
            if not self.suppress_rescale:
                if np.any(ep.factors.scale != 1.0):
                    self.stat("probe.rescale_with_pending_scale")
                self.rescale_now(f"injected-rescale:{kind}{i}")
                self.stat("fault.rescale")
                self.rescales_fired += 1
            fault = None
        if unphased:
            par, chi, lik, lognorm = ep.block_nodes[0], ep.block_nodes[1], ep.block_likelihoods, ep.block_logconst
            nanlik = self.nan_block
        else:
            par, chi, lik, lognorm = ep.edge_parents, ep.edge_children, ep.edge_likelihoods, ep.edge_logconst
            nanlik = self.nan_edge
        p, c = par[i], chi[i]
        if ep.factors.scale[p] < self.v.TINY or ep.factors.scale[c] < self.v.TINY:
            self.stat("probe.natural_rescale_below_TINY")
        if fault == "skip":
            lik = nanlik
            self.faults_fired += 1
        self.one[0] = i
        try:
            ep.propagate_likelihood(self.one, par, chi, lik, ep.node_constraints, ep.node_posterior, ep.factors,
                                    lognorm, cfg["max_shape"], cfg["min_step"], bool(unphased))
        except AssertionError as e:
            if fault == "skip" and "proper" in self.checks:
                # The documented behaviour of a skipped update is "return NaN and keep the parameters"; if the very
                # delivery whose projection was made invalid dies in a kernel assertion, a natural skip would leave
                # no posterior at all.  (Never seen on the pinned tree: its kernel assertions under faults all come
                # from propagate_prior after a root has been starved.)
                self.viol.append(violation(
                    "skip-path-raised", f"{kind}-delivery",
                    f"the delivery of {kind} {i} (parent {p}, child {c}) with an invalid projection (skipped update) "
                    f"raised AssertionError inside propagate_likelihood instead of keeping the node's parameters"))
                raise Abort("violation") from e
            raise Abort("kernel-assert:propagate_likelihood") from e
        self.n_deliveries += 1
        fp, fc = self.fixed[p], self.fixed[c]
        if not (fp and fc):
            branch = ("fixed_parent" if fp else "fixed_child" if fc else ("twin" if p == c else
                      ("unphased_pair" if unphased else "free_free")))
            if np.isnan(lognorm[i]):
                if fault == "skip":
                    self.stat("fault.skip")
                    self.stat("probe.skip_on_" + branch)
                else:
                    self.stat("probe.natural_skip")
                    self.stat("probe.natural_skip_on_" + branch)
            elif fault == "skip":
                raise HarnessError("injected skip (NaN likelihood row) did not drive the invalid-projection path")
            self.stat("probe.delivery_" + branch)
        self.log.add(kind, i, fault or "")
        self.check(f"{kind}-delivery:{kind}{i}" + (":skip" if fault == "skip" else ""))
        if self.on_delivery is not None:
            self.on_delivery(kind, int(i), fault)

    def iteration(self, it):
        ep, cfg = self.ep, self.cfg
        for b in ep.block_order:
            self.deliver(True, b)
        for e in ep.edge_order:
            self.deliver(False, e)
        if cfg["regularise"]:
            try:
                ep.propagate_prior(ep.unconstrained_roots, ep.node_posterior, ep.factors, cfg["max_shape"], 10, 1e-8)
            except AssertionError as e:
                raise Abort("kernel-assert:propagate_prior") from e
            self.check("propagate_prior")
        sc = ep.factors.scale
        if np.any(sc != 1.0):
            self.stat("probe.cap_or_floor_active_in_iteration")
            if np.any(sc > 1.0):
                self.stat("probe.lower_cap_active")
        self.rescale_now(f"end-of-iteration-rescale:{it}")
        self.log.add("ITER", it, hashlib.sha256(ep.node_posterior.tobytes()).hexdigest()[:12])

    def run(self, iterations):
        try:
            for it in range(iterations):
                self.iteration(it)
        except Abort as a:
            return a.why
        return None


def observe_iterate(res, viol):
    """Wrap the plain-Python method ExpectationPropagation.iterate so that conservation is checked after
    every iteration of a REAL date()/variational_gamma() call.  Returns an undo function."""
    M = _setup()
    EP = M["EP"]
    real = EP.iterate

    def iterate(self, **kw):
        real(self, **kw)
        H = getattr(self, "_verif_H", None)
        if H is None:
            H = np.zeros((self.node_posterior.shape[0], 2))
            self._verif_H = H
        f = self.factors
        wu, wt, werr, wH, wl, wr = M["conservation"](
            f.edge, f.block, f.node, f.scale, self.edge_parents, self.edge_children, self.block_nodes[0],
            self.block_nodes[1], self.node_posterior, H, TOL_OBSERVED)
        res["stats"]["observed_real_iterations"] += 1
        if wu >= 0 and not viol:
            viol.append(violation(
                "conservation", "real-iterate",
                f"after a real iterate() inside variational_gamma(): node {wu} natural parameter {wt}: posterior="
                f"{wl!r} but scale*sum(messages)={wr!r} (|diff|={werr:.3e}, H={wH:.3e})"))

    EP.iterate = iterate

    def undo():
        EP.iterate = real

    return undo


def gen_input(tape, star_share=0.15, deep_share=0.05):
    """(ts, mu, info, expected_or_None)"""
    r = tape.choose("input_kind", 100)
    if r >= 100 - int(deep_share * 100):
        return gen_deep_star(tape)
    if r >= 100 - int((deep_share + star_share) * 100):
        ts, mu, exp, info = workload.gen_star(tape)
        return ts, mu, info, exp
    ts, mu, info = workload.gen_msprime(tape)
    return ts, mu, info, None


def gen_deep_star(tape):
    """A star with many heavy edges: with a small max_shape the per-delivery cap multiplies the node's
    scale by ~1/y each time, so the scale underflows TINY inside one iteration and the NATURAL
    _rescale_factors path inside propagate_likelihood fires."""
    import tskit

    n = tape.pick("deep_n", [70, 90, 120])
    y = tape.pick("deep_y", [200, 400])
    t = tskit.TableCollection(sequence_length=1000.0)
    for _ in range(n):
        t.nodes.add_row(flags=tskit.NODE_IS_SAMPLE, time=0.0)
    p = t.nodes.add_row(flags=0, time=1.0)
    for s in range(n):
        t.edges.add_row(0.0, 1000.0, p, s)
    t.sites.set_columns(position=np.arange(y, dtype=np.float64), ancestral_state=np.full(y, ord("0"), dtype=np.int8),
                        ancestral_state_offset=np.arange(y + 1, dtype=np.uint64))
    m = n * y
    t.mutations.set_columns(site=np.repeat(np.arange(y, dtype=np.int32), n), node=np.tile(np.arange(n, dtype=np.int32), y),
                            time=np.full(m, tskit.UNKNOWN_TIME), derived_state=np.full(m, ord("1"), dtype=np.int8),
                            derived_state_offset=np.arange(m + 1, dtype=np.uint64),
                            parent=np.full(m, tskit.NULL, dtype=np.int32))
    t.sort()
    t.build_index()
    t.compute_mutation_parents()
    ts = t.tree_sequence()
    return ts, 1.0, {"kind": "deep_star", "edges": n, "muts": n * y}, {p: (n * y, n * 1000.0)}


def draw_cfg(tape, info, allow_faults=True, include_one=False):
    # max_shape == 1.0 is rejected by the public API (ValueError); only C05 offers it, to see that it stays rejected
    shapes = [1000.0, 1.5, 5.0, 100.0, 20.0, 1.0001, 1e6] + ([1.0] if include_one else [])
    cfg = {
        "max_shape": tape.pick("max_shape", shapes),
        "min_step": tape.pick("min_step", [0.1, 0.05, 0.5]),
        "regularise": bool(tape.pick("regularise", [1, 0])),
        "iterations": 1 + tape.choose("iterations", 6),
        "p_skip": tape.pick("p_skip", [0.0, 0.0, 0.02, 0.1]) if allow_faults else 0.0,
        "p_rescale": tape.pick("p_rescale", [0.0, 0.0, 0.02, 0.1]) if allow_faults else 0.0,
    }
    if info.get("kind") == "deep_star":
        cfg["max_shape"] = tape.pick("deep_max_shape", [1.5, 2.0])
        cfg["iterations"] = 1 + tape.choose("deep_iterations", 2)
    return cfg


def pick_phased(tape, ts):
    if ts.num_individuals > 0 and all(len(i.nodes) == 2 for i in ts.individuals()):
        return bool(tape.pick("singletons_phased", [1, 0]))
    return True


class _EPBase(Engine):
    name = "ep"
    level = "exploration"
    chunk = 40
    selftest_m = {"quick": 12, "thorough": 48}
    fatal_stats = ["refinement_mismatch"]

    def prepare(self, tier):
        _setup()

    def components(self):
        return {
            "real": ["tsdate.variational.ExpectationPropagation (__init__, propagate_likelihood, propagate_prior, "
                     "propagate_mutations, infer tail, rescale, node_moments) - compiled numba kernels",
                     "tsdate.variational._rescale_factors", "tsdate.approx projection wrappers incl. their "
                     "invalid-moment (skip) paths", "tsdate.phasing.block_singletons", "tsdate.rescaling",
                     "public API tsdate.variational_gamma / tsdate.date for the observed real runs"],
            "stubbed": ["the orchestration of ExpectationPropagation.iterate() (re-implemented one message per "
                        "kernel call; checked bit-identical to the real iterate() on fault-free runs)"],
        }

    def assumptions(self):
        return ["injected faults are the two rare events the production code can take by itself: a skipped update "
                "(invalid projection) and _rescale_factors; the shipped message schedule is never reordered",
                "floating-point bound for conservation: |posterior - scale*sum| <= 1e-9 * running high-water mark",
                "inputs come from the seeded workload generator (msprime ancestries <= 8 samples / 150 edges, "
                "polytomies, internal and ancient samples, star and deep-star trees); the input space is sampled"]

    def refinement(self, ts, mu, phased, cfg, stepper):
        """Fault-free stepping must be bit-identical to the real iterate()."""
        M = _setup()
        ep2 = M["EP"](ts, mutation_rate=mu, singletons_phased=phased)
        try:
            for _ in range(cfg["iterations"]):
                ep2.iterate(max_shape=cfg["max_shape"], min_step=cfg["min_step"], regularise=cfg["regularise"])
        except AssertionError:
            return None
        a, b = stepper.ep, ep2
        same = (np.array_equal(a.node_posterior, b.node_posterior, equal_nan=True)
                and np.array_equal(a.factors.edge, b.factors.edge, equal_nan=True)
                and np.array_equal(a.factors.block, b.factors.block, equal_nan=True)
                and np.array_equal(a.factors.node, b.factors.node, equal_nan=True)
                and np.array_equal(a.factors.scale, b.factors.scale, equal_nan=True))
        return same


def _not_accepted(e):
    return isinstance(e, (ValueError, NotImplementedError))


# ============================================================================
# C21
# ============================================================================
class C21Engine(_EPBase):
    prop = "C21"

    def n_runs(self, tier):
        return {"quick": 6000, "thorough": 400000}[tier]

    def rule(self):
        return ("Each run: a tape-generated tree sequence (msprime / polytomies / internal+ancient samples / star / "
                "deep star) and EP configuration (max_shape, min_step, regularise, 1-6 iterations, singletons_phased), "
                "stepped one message per real kernel call with tape-chosen skip / rescale faults (swarm: rates 0, 2%, "
                "10% per kind); conservation is checked after every delivery, every injected or end-of-iteration "
                "rescale and every propagate_prior, plus after every iteration of one real variational_gamma() call "
                "on the same input. Non-trivial = at least one fault fired or the cap was active; distinct = distinct "
                "event-log digest (which includes the posterior bytes after each iteration).")

    def expected_probes(self, tier):
        return ["fault.skip", "fault.rescale", "probe.skip_on_free_free", "probe.skip_on_fixed_child",
                "probe.cap_or_floor_active_in_iteration", "probe.rescale_with_pending_scale",
                "probe.natural_rescale_below_TINY", "probe.delivery_unphased_pair", "probe.delivery_twin",
                "probe.delivery_fixed_parent"]

    def run(self, tape):
        M = _setup()
        res = blank_result()
        log = EventLog()
        ts, mu, info, _ = gen_input(tape)
        phased = pick_phased(tape, ts)
        cfg = draw_cfg(tape, info)
        log.add("INPUT", sorted(info.items()), mu, phased, sorted(cfg.items()))
        try:
            st = Stepper(ts, mu, phased, cfg, tape, log, res, {"conservation"})
        except Exception as e:  # noqa: BLE001
            if _not_accepted(e):
                res["aborted"] = "input-not-accepted"
                res["digest"] = log.digest()
                return res
            raise
        why = st.run(cfg["iterations"])
        res["violations"].extend(st.viol)
        if why and why != "violation":
            res["aborted"] = why + (":faultfree" if not (st.faults_fired or st.rescales_fired) else ":with-faults")
        ep = st.ep
        if why is None:
            # third clause: samples keep their times
            mn, va = ep.node_moments()
            fx = st.fixed
            if not (np.array_equal(mn[fx], ep.node_constraints[fx, 0]) and np.all(va[fx] == 0.0)):
                res["violations"].append(violation(
                    "sample-time-changed", "node_moments",
                    "node_moments() does not return the input time with zero variance for a sample node"))
            if not (st.faults_fired or st.rescales_fired) and tape.chance("refine", 0.5):
                same = self.refinement(ts, mu, phased, cfg, st)
                if same is False:
                    res["stats"]["refinement_mismatch"] += 1
                elif same:
                    res["stats"]["refinement_checked_bit_identical"] += 1
            # twin run: same tape, rescale faults suppressed -> same posteriors
            if st.rescales_fired and cfg["p_rescale"] > 0:
                res2 = blank_result()
                st2 = Stepper(ts, mu, phased, cfg, Tape(values=[]), EventLog(keep=0),
                              res2, set(), suppress_rescale=True)
                st2.tape = _ReplayFaults(st)  # replays exactly the same fault decisions
                if st2.run(cfg["iterations"]) is None:
                    a, b = ep.node_posterior, st2.ep.node_posterior
                    scale = np.maximum(np.abs(a), np.abs(b))
                    diff = np.abs(a - b)
                    floor = np.array([1.0, 0.0])  # parameter 0 is shape-1: compare shapes, not their offsets
                    # An EM loop (relative tolerance 1e-8) and series expansions with their own stopping rules sit
                    # inside every delivery, so rounding-level differences introduced by a rescale legitimately grow to
                    # ~1e-8..1e-7 (measured, see the twin_rel_diff_* counters); a real "rescale changes the posterior"
                    # bug mis-scales a whole message, i.e. is of order 1e-3..1.
                    # Measured tail over 141 844 judged twins (thorough run): 222 above 1e-9, 77 above 1e-8, 24 above 1e-7,
                    # 2 above 1e-6, 1 above 1e-5 - the tail falls by only ~3x per decade (EP is not contractive everywhere),
                    # so the threshold sits at 10 %: what it is meant to catch, a message mis-scaled by a pending scale
                    # factor, changes posteriors by tens of percent or more.
                    twin_tol = 0.1
                    bad = diff > twin_tol * np.maximum(np.maximum(scale, st.H), floor)
                    res["stats"]["twin_runs"] += 1
                    Hn = np.maximum(st.H, floor)
                    rel = float(np.max(diff / np.where(Hn > 0, Hn, 1.0))) if a.size else 0.0
                    for thr in ("1e-13", "1e-11", "1e-9", "1e-8", "1e-7", "1e-6", "1e-5", "1e-4", "1e-3", "1e-2"):
                        if rel > float(thr):
                            res["stats"]["twin_rel_diff_gt_" + thr + ("_tinyshape" if cfg["max_shape"] < 1.5 else "")] += 1
                    if cfg["max_shape"] < 1.5:
                        # shape-1 then carries few significant digits and the comparison is ill-conditioned: recorded
                        # in the counters above, not judged
                        res["stats"]["twin_not_judged_tiny_max_shape"] += 1
                    elif np.any(bad):
                        u = int(np.argwhere(bad)[0][0])
                        res["violations"].append(violation(
                            "rescale-visible", "twin-run",
                            f"the same run without its {st.rescales_fired} injected _rescale_factors calls ends with a "
                            f"different posterior for node {u}: {a[u].tolist()} vs {b[u].tolist()}"))
        # observed real run on the same input
        if tape.chance("observe_real", 0.5):
            viol = []
            undo = observe_iterate(res, viol)
            try:
                M["tsdate"].variational_gamma(
                    ts, mutation_rate=mu, max_iterations=cfg["iterations"], max_shape=cfg["max_shape"],
                    regularise_roots=cfg["regularise"], singletons_phased=phased, rescaling_intervals=0,
                    record_provenance=False)
                res["stats"]["observed_real_calls"] += 1
            except Exception as e:  # noqa: BLE001 - what a real call raises is not C21's business; iterations seen so far were checked
                res["stats"]["observed_real_calls_raised_" + type(e).__name__] += 1
            finally:
                undo()
            res["violations"].extend(viol)
        res["events"] = st.n_deliveries
        res["stats"]["deliveries"] += st.n_deliveries
        res["digest"] = log.digest()
        res["trace"] = log.head[:1] + log.head[-30:]
        res["nontrivial"] = bool(st.faults_fired or st.rescales_fired
                                 or res["stats"].get("probe.cap_or_floor_active_in_iteration"))
        res["states"].append(hashlib.sha256(ep.node_posterior.tobytes()).hexdigest()[:16])
        return res


class _ReplayFaults:
    """Feeds a twin stepper the fault decisions the first stepper took (in delivery order)."""

    RES = Tape.RES

    def __init__(self, st):
        # the fault draws are exactly the tape entries labelled "fault", in order
        self.vals = [v for v, lab in zip(st.tape.values, st.tape.labels) if lab == "fault"]
        self.pos = 0

    def choose(self, label, n):
        if label != "fault":
            raise HarnessError("twin stepper drew an unexpected tape label " + label)
        v = self.vals[self.pos] if self.pos < len(self.vals) else 0
        self.pos += 1
        return v


# ============================================================================
# C05
# ============================================================================
class C05Engine(_EPBase):
    prop = "C05"

    def n_runs(self, tier):
        return {"quick": 5000, "thorough": 300000}[tier]

    def rule(self):
        return ("Each run has a fault-free half - one real tsdate.variational_gamma(return_fit=True) call on a "
                "tape-generated input crossed with max_iterations, max_shape, rescaling on/off, singletons_phased, "
                "checked at return against the three clauses of the statement - and a fault half - the same input "
                "stepped message by message with skip/rescale faults, checking after every step that each free node "
                "is either still (0,0) or a proper gamma with shape <= max_shape, then the real tail "
                "(propagate_mutations, phase switch, rescale when all nodes are proper). Non-trivial = a fault fired, "
                "the cap was active or a natural skip occurred; distinct = distinct event-log digest.")

    def expected_probes(self, tier):
        return ["fault.skip", "probe.cap_or_floor_active_in_iteration", "probe.api_rescaled", "probe.api_unphased",
                "probe.api_shape_at_cap", "probe.mutation_posterior_nan", "probe.tail_ran"]

    def check_fit(self, fit, ts, max_shape, phased, res, site):
        out = []
        post = fit.node_posteriors()
        is_sample = np.zeros(ts.num_nodes, dtype=bool)
        is_sample[list(ts.samples())] = True
        mn, va = post["mean"][~is_sample], post["variance"][~is_sample]
        ok = np.isfinite(mn) & np.isfinite(va) & (mn > 0) & (va > 0)
        if not np.all(ok):
            u = np.flatnonzero(~is_sample)[np.flatnonzero(~ok)[0]]
            out.append(violation("improper-node-posterior", site,
                                 f"non-sample node {u}: mean={post['mean'][u]!r} variance={post['variance'][u]!r}"))
        else:
            shape = mn * mn / va
            if np.any(shape > max_shape * (1 + 1e-9)):
                u = np.flatnonzero(~is_sample)[int(np.argmax(shape))]
                out.append(violation("shape-above-cap", site,
                                     f"non-sample node {u}: mean^2/variance={float(np.max(shape))!r} > max_shape={max_shape}"))
            if np.any(shape > max_shape * (1 - 1e-6)):
                res["stats"]["probe.api_shape_at_cap"] += 1
        mp = fit.mutation_posteriors()
        m, v = mp["mean"], mp["variance"]
        both_nan = np.isnan(m) & np.isnan(v)
        good = np.isfinite(m) & np.isfinite(v) & (m > 0) & (v > 0)
        if np.any(both_nan):
            res["stats"]["probe.mutation_posterior_nan"] += 1
        if not np.all(both_nan | good):
            k = int(np.flatnonzero(~(both_nan | good))[0])
            out.append(violation("improper-mutation-posterior", site,
                                 f"mutation {k}: mean={m[k]!r} variance={v[k]!r} is neither NaN/NaN nor finite positive"))
        ph = np.asarray(fit.mutation_phase)
        if not phased:
            blocks = np.asarray(fit.mutation_blocks)
            sing = blocks != -1
            x = ph[sing]
            okp = np.isnan(x) | ((x >= 0.5) & (x <= 1.0))
            if np.any(np.isnan(x)):
                res["stats"]["probe.phase_nan"] += 1
            if x.size:
                res["stats"]["probe.api_unphased_singletons_seen"] += 1
            if not np.all(okp):
                k = int(np.flatnonzero(sing)[np.flatnonzero(~okp)[0]])
                out.append(violation("phase-out-of-range", site,
                                     f"unphased singleton mutation {k} has phase probability {ph[k]!r}"))
        return out

    def run(self, tape):
        M = _setup()
        res = blank_result()
        log = EventLog()
        ts, mu, info, _ = gen_input(tape, star_share=0.1, deep_share=0.03)
        phased = pick_phased(tape, ts)
        cfg = draw_cfg(tape, info, include_one=True)
        api = {
            "max_iterations": tape.pick("api_iterations", [cfg["iterations"], 1, 10, 25]),
            "rescaling_intervals": tape.pick("resc_intervals", [1000, 0, 3, 50]),
            "rescaling_iterations": tape.pick("resc_iterations", [5, 1, 0]),
            "match_segregating_sites": bool(tape.pick("segsites", [0, 1])),
        }
        log.add("INPUT", sorted(info.items()), mu, phased, sorted(cfg.items()), sorted(api.items()))
        # ---- fault-free half: the public API -------------------------------------------------
        try:
            _, fit = M["tsdate"].variational_gamma(
                ts, mutation_rate=mu, max_shape=cfg["max_shape"], regularise_roots=cfg["regularise"],
                singletons_phased=phased, return_fit=True, record_provenance=False, **api)
        except Exception as e:  # noqa: BLE001
            fit = None
            if _not_accepted(e):
                res["aborted"] = "input-not-accepted"
            else:
                # the call produced no posterior to judge; the stepper below looks at the state it would have had
                res["aborted"] = f"api-raised:{type(e).__name__}"
                res["stats"]["api_raised_" + type(e).__name__] += 1
                log.add("API-RAISED", type(e).__name__)
        if fit is not None:
            res["stats"]["api_calls"] += 1
            if api["rescaling_intervals"] > 0 and api["rescaling_iterations"] > 0:
                res["stats"]["probe.api_rescaled"] += 1
            if not phased:
                res["stats"]["probe.api_unphased"] += 1
            res["violations"].extend(self.check_fit(fit, ts, cfg["max_shape"], phased, res, "api-return"))
            log.add("API", hashlib.sha256(fit.node_posterior.tobytes()).hexdigest()[:12])
        # ---- fault half: the stepper -----------------------------------------------------------
        if res["aborted"] != "input-not-accepted":
            st = Stepper(ts, mu, phased, cfg, tape, log, res, {"proper"})
            why = st.run(cfg["iterations"])
            res["violations"].extend(st.viol)
            if why and why != "violation":
                res["aborted"] = why + (":faultfree" if not (st.faults_fired or st.rescales_fired) else ":with-faults")
            if why is None:
                ep = st.ep
                post = ep.node_posterior
                free = ~st.fixed
                all_proper = bool(np.all((post[free, 0] + 1 > 0) & (post[free, 1] > 0)))
                if not all_proper:
                    res["stats"]["probe.node_starved_by_injected_skips"] += 1
                    if not st.faults_fired:
                        u = int(np.flatnonzero(free)[np.flatnonzero(~((post[free, 0] + 1 > 0) & (post[free, 1] > 0)))[0]])
                        res["violations"].append(violation(
                            "improper-node-posterior", "stepper-faultfree",
                            f"without any injected skip, free node {u} ends {cfg['iterations']} iterations with natural "
                            f"parameters {post[u].tolist()}"))
                try:
                    ep.infer(ep_iterations=0, max_shape=cfg["max_shape"],
                             rescale_intervals=api["rescaling_intervals"] if all_proper else 0,
                             rescale_iterations=api["rescaling_iterations"], regularise=cfg["regularise"],
                             rescale_segsites=api["match_segregating_sites"])
                    res["stats"]["probe.tail_ran"] += 1
                    if all_proper or True:
                        # node clause only when every node is proper (injected skips may starve a node)
                        v = self.check_fit(ep, ts, cfg["max_shape"], phased, res, "stepper-tail")
                        if not all_proper:
                            v = [x for x in v if x["cls"] not in ("improper-node-posterior", "shape-above-cap")]
                        res["violations"].extend(v)
                except (AssertionError, FloatingPointError, ZeroDivisionError) as e:
                    res["stats"]["tail_raised_" + type(e).__name__] += 1
                    if not (st.faults_fired or st.rescales_fired):
                        res["aborted"] = "tail-raised:faultfree"
            res["events"] = st.n_deliveries
            res["stats"]["deliveries"] += st.n_deliveries
            res["nontrivial"] = bool(st.faults_fired or res["stats"].get("probe.cap_or_floor_active_in_iteration")
                                     or res["stats"].get("probe.natural_skip"))
            res["states"].append(hashlib.sha256(st.ep.node_posterior.tobytes()).hexdigest()[:16])
        res["digest"] = log.digest()
        res["trace"] = log.head[:1] + log.head[-30:]
        return res


# ============================================================================
# C20
# ============================================================================
class C20Engine(_EPBase):
    prop = "C20"
    chunk = 60

    def n_runs(self, tier):
        return {"quick": 8000, "thorough": 600000}[tier]

    def rule(self):
        return ("Each run: a tape-generated star-like tree sequence (1-4 parents, 1-6 trees, 2-8 samples, 0-300 "
                "mutations per edge, mutations above roots) stepped one message per real kernel call for 1-8 "
                "iterations with tape-chosen max_shape, min_step and injected _rescale_factors faults; an executable "
                "reference model (conjugate gamma: natural parameters (sum y, mu*sum span) over the edges delivered "
                "so far, computed from the tables, not from tsdate) is compared after EVERY delivery; then one real "
                "variational_gamma(regularise_roots=False, rescaling off) call is compared at return. Non-trivial = "
                ">= 2 iterations (re-delivery) or a rescale fault or the cap regime; distinct = event-log digest.")

    def expected_probes(self, tier):
        return ["fault.rescale", "probe.capped_regime", "probe.uncapped_exact_checked", "probe.redelivery_checked",
                "probe.api_exact_checked", "probe.damped_delivery"]

    def run(self, tape):
        M = _setup()
        res = blank_result()
        log = EventLog()
        if tape.chance("deep", 0.02):
            ts, mu, info, exp = gen_deep_star(tape)
        else:
            ts, mu, exp, info = workload.gen_star(tape)
        cfg = {
            "max_shape": tape.pick("max_shape", [1000.0, 1e6, 100.0, 5.0, 20.0, 1.5]),
            "min_step": tape.pick("min_step", [0.1, 0.05, 0.5, 0.9]),
            "regularise": False,
            "iterations": 1 + tape.choose("iterations", 8),
            "p_skip": 0.0,
            "p_rescale": tape.pick("p_rescale", [0.0, 0.05, 0.2]),
        }
        log.add("INPUT", sorted(info.items()), mu, sorted(cfg.items()), sorted(exp.items()))
        ms = cfg["max_shape"]
        # reference model: per parent, the edges delivered so far
        edges = [(e.parent, e.child, e.right - e.left) for e in ts.edges()]
        y_edge = np.zeros(ts.num_edges)
        mnode, mpos = ts.mutations_node, ts.sites_position[ts.mutations_site]
        for i, e in enumerate(ts.edges()):
            y_edge[i] = np.count_nonzero((mnode == e.child) & (mpos >= e.left) & (mpos < e.right))
        model = {p: [0.0, 0.0] for p in exp}
        delivered = set()
        capped_nodes = set()
        try:
            st = Stepper(ts, mu, True, cfg, tape, log, res, {"conservation"})
        except (ValueError, NotImplementedError):
            res["aborted"] = "input-not-accepted"
            res["digest"] = log.digest()
            return res
        if info.get("isolated_intervals"):
            res["stats"]["probe.star_with_isolated_samples"] += 1
        state = {"viol": None}

        def on_delivery(kind, i, fault):
            p, c, span = edges[i]
            if i not in delivered:
                delivered.add(i)
                model[p][0] += y_edge[i]
                model[p][1] += mu * span
            else:
                res["stats"]["probe.redelivery_checked"] += 1
            a, b = st.ep.node_posterior[p]
            ea, eb = model[p]
            if 1.0 + ea > ms:
                capped_nodes.add(p)
            if p in capped_nodes:
                res["stats"]["probe.capped_regime"] += 1
                # shape must sit exactly on the cap; the rate is the known finding (checked at iteration end)
                if not abs((a + 1.0) - ms) <= 1e-9 * ms and state["viol"] is None and 1.0 + ea > ms:
                    state["viol"] = violation(
                        "capped-shape-wrong", "fixed-child-delivery",
                        f"parent {p}: 1+sum(y)={1 + ea} exceeds max_shape={ms} but the posterior shape is {a + 1.0!r}")
                return
            res["stats"]["probe.uncapped_exact_checked"] += 1
            if not (abs(a - ea) <= 1e-9 * max(1.0, abs(ea)) and abs(b - eb) <= 1e-9 * abs(eb)):
                if state["viol"] is None:
                    state["viol"] = violation(
                        "conjugate-mismatch", "fixed-child-delivery",
                        f"after delivering edge {i} (parent {p}, y={y_edge[i]}, span={span}) in iteration with "
                        f"{len(delivered)} distinct edges delivered: posterior natural parameters ({a!r}, {b!r}) but the "
                        f"conjugate model says ({ea!r}, {eb!r}) [shape-1, rate]; mu={mu}, max_shape={ms}, "
                        f"min_step={cfg['min_step']}")

        st.on_delivery = on_delivery
        why = st.run(cfg["iterations"])
        res["violations"].extend(st.viol)
        if state["viol"]:
            res["violations"].append(state["viol"])
        if why and why != "violation":
            res["aborted"] = why + (":faultfree" if not st.rescales_fired else ":with-faults")
        # capped regime at the end of the run: both natural parameters scaled by ONE factor
        if why is None:
            for p in sorted(capped_nodes):
                sy, ss = exp[p]
                a, b = st.ep.node_posterior[p]
                f = (ms - 1.0) / sy
                ea, eb = f * sy, f * mu * ss
                res["stats"]["probe.capped_rate_checked"] += 1
                if not abs(b - eb) <= 1e-9 * abs(eb):
                    ratios = sorted({round(y_edge[i] / (mu * s), 12) for i, (pp, c, s) in enumerate(edges) if pp == p})
                    res["violations"].append(violation(
                        "capped-rate-not-one-factor",
                        "fixed-child-delivery:posterior_damping" + (":unequal-edge-ratios" if len(ratios) > 1 else
                                                                    ":equal-edge-ratios"),
                        f"parent {p}: 1+sum(y)={1 + sy} > max_shape={ms}; statement says natural parameters "
                        f"({ea!r}, {eb!r}) (one factor {f!r}); got ({a!r}, {b!r}); distinct y/(mu*span) ratios among its "
                        f"edges: {len(ratios)}"))
                    break
        # the public API on the same input
        try:
            _, fit = M["tsdate"].variational_gamma(
                ts, mutation_rate=mu, max_iterations=cfg["iterations"], max_shape=ms, regularise_roots=False,
                rescaling_intervals=0, singletons_phased=True, return_fit=True, record_provenance=False)
            post = fit.node_posteriors()
            for p, (sy, ss) in sorted(exp.items()):
                if 1.0 + sy > ms:
                    continue
                em = (1.0 + sy) / (mu * ss)
                ev = em / (mu * ss)
                res["stats"]["probe.api_exact_checked"] += 1
                if not (abs(post["mean"][p] - em) <= 1e-9 * em and abs(post["variance"][p] - ev) <= 1e-9 * ev):
                    res["violations"].append(violation(
                        "conjugate-mismatch", "api-return",
                        f"variational_gamma(regularise_roots=False, rescaling off, max_iterations={cfg['iterations']}): "
                        f"parent {p} mean/variance ({post['mean'][p]!r}, {post['variance'][p]!r}) but gamma(shape "
                        f"{1 + sy}, rate {mu * ss}) has ({em!r}, {ev!r})"))
                    break
        except (ValueError, NotImplementedError) as e:
            res["stats"]["api_not_accepted"] += 1
            log.add("API-REJECT", type(e).__name__)
        except Exception as e:  # noqa: BLE001 - a raising API call yields nothing to compare; the stepper above already judged
            res["stats"]["api_raised_" + type(e).__name__] += 1
        if cfg["min_step"] >= 0.5:
            res["stats"]["probe.damped_delivery"] += 1
        res["events"] = st.n_deliveries
        res["stats"]["deliveries"] += st.n_deliveries
        res["digest"] = log.digest()
        res["trace"] = log.head[:1] + log.head[-30:]
        res["nontrivial"] = bool(cfg["iterations"] >= 2 or st.rescales_fired or capped_nodes)
        res["states"].append(hashlib.sha256(st.ep.node_posterior.tobytes()).hexdigest()[:16])
        return res
