"""C09 - results are deterministic, independent of thread count, and prior reuse
is harmless   (engine `hist`).

A run is a *history* of public-API calls on 1-3 generated tree sequences with
shared prior objects, under (a) a simulated process pool whose arrival order
and iterator consumption are tape choices (sim.simmp.SimMP), (b) a virtual
clock that jumps, and, as a separate part, (c) interpreter restarts with other
PYTHONHASHSEED values that must reproduce every per-call output digest.

Real: all of tsdate (JIT on), the public API, pickling of pool traffic.
Stubbed: the pool's processes, the clock.
"""

import hashlib
import json
import os
import subprocess
import sys

import numpy as np

from .. import clock as vclock
from .. import simmp, workload
from ..runner import VERIF_DIR, Engine, HarnessError, blank_result, fresh_env, violation
from ..tape import EventLog

_M = {}


def _setup():
    if _M:
        return _M
    import tskit
    import tskit.provenance

    import tsdate
    import tsdate.core
    import tsdate.discrete
    import tsdate.util
    import tsdate.variational

    repo = os.path.realpath(os.environ.get("TSDATE_REPO", "/repo"))
    if not os.path.realpath(tsdate.__file__).startswith(repo):
        raise HarnessError(f"tsdate imported from {tsdate.__file__}, expected under {repo}")
    import multiprocessing

    if getattr(tsdate.discrete, "multiprocessing", None) is not multiprocessing:
        raise HarnessError("seam mismatch: tsdate.discrete no longer reaches the pool through its module attribute "
                           "`multiprocessing`")
    _M.update(tsdate=tsdate, tskit=tskit, discrete=tsdate.discrete,
              clock_modules=[tsdate.core, tsdate.util, tsdate.variational, tskit.provenance])
    import logging
    import warnings

    logging.getLogger().setLevel(logging.ERROR)
    logging.getLogger("tsdate").setLevel(logging.ERROR)
    warnings.simplefilter("ignore")
    workload.warm_up()
    return _M


_CODE = {}
_CFUNCS = {}
_COPY_N = [0]


def fresh_tsdate_modules():
    """A fresh copy of the tsdate package under a private name: every module body is executed again (code objects are
    cached), so all module-level state of tsdate is pristine.  Only meaningful with the JIT off (with it on, executing
    the bodies would recompile every kernel)."""
    import importlib
    import importlib.machinery
    import importlib.util
    import sys as _sys

    import tskit.provenance

    pkgdir = os.path.join(os.path.realpath(os.environ.get("TSDATE_REPO", "/repo")), "tsdate")
    _COPY_N[0] += 1
    name = f"tsdate_iso{_COPY_N[0]}"

    class Loader(importlib.machinery.SourceFileLoader):
        def get_code(self, fullname):
            path = self.get_filename(fullname)
            c = _CODE.get(path)
            if c is None:
                c = _CODE[path] = super().get_code(fullname)
            return c

    class Finder:
        def find_spec(self, fullname, path=None, target=None):
            if fullname == name:
                f = os.path.join(pkgdir, "__init__.py")
                return importlib.util.spec_from_file_location(fullname, f, loader=Loader(fullname, f),
                                                              submodule_search_locations=[pkgdir])
            if fullname.startswith(name + "."):
                f = os.path.join(pkgdir, fullname.split(".")[-1] + ".py")
                if os.path.exists(f):
                    return importlib.util.spec_from_file_location(fullname, f, loader=Loader(fullname, f))
            return None

    # numba.cfunc compiles even with the JIT disabled (one tiny wrapper around a scipy function pointer in hypergeo.py).
    # An LLVM compile per module copy costs little CPU but, with 16 workers doing it at once, a lot of kernel time on
    # this VM (page-table operations serialise).  Identical code compiles to an identical wrapper, so reuse it.
    import numba

    real_cfunc = numba.cfunc

    def cfunc_memo(sig, **kw):
        def deco(fn):
            key = (str(sig), fn.__code__.co_code, fn.__code__.co_consts, fn.__name__, tuple(sorted(kw)))
            c = _CFUNCS.get(key)
            if c is None:
                c = _CFUNCS[key] = real_cfunc(sig, **kw)(fn)
            return c
        return deco

    numba.cfunc = cfunc_memo
    fd = Finder()
    _sys.meta_path.insert(0, fd)
    try:
        pkg = importlib.import_module(name)
        sub = {n: importlib.import_module(f"{name}.{n}") for n in ("core", "util", "variational", "discrete")}
    finally:
        _sys.meta_path.remove(fd)
        numba.cfunc = real_cfunc
    return {"name": name, "tsdate": pkg, "discrete": sub["discrete"],
            "clock_modules": [sub["core"], sub["util"], sub["variational"], tskit.provenance]}


def drop_modules(mods):
    import sys as _sys

    name = mods.get("name")
    if name:
        for k in [k for k in _sys.modules if k == name or k.startswith(name + ".")]:
            del _sys.modules[k]


_CACHE_DIR = [None]


def _cache_dir_seam(*a, **k):
    if _CACHE_DIR[0] is None:
        return _REAL_UCD[0](*a, **k)
    return os.path.join(_CACHE_DIR[0], "cache")


_REAL_UCD = [None]


def install_cache_seam():
    import appdirs

    if _REAL_UCD[0] is None:
        _REAL_UCD[0] = appdirs.user_cache_dir
        appdirs.user_cache_dir = _cache_dir_seam


def _send(fd, obj):
    import pickle
    import struct

    data = pickle.dumps(obj, protocol=pickle.HIGHEST_PROTOCOL)
    data = struct.pack("<Q", len(data)) + data
    view = memoryview(data)
    while view:
        n = os.write(fd, view[:1 << 20])
        view = view[n:]


def _recv(fd):
    import pickle
    import struct

    def read_exact(n):
        buf = bytearray()
        while len(buf) < n:
            chunk = os.read(fd, min(1 << 20, n - len(buf)))
            if not chunk:
                return None
            buf += chunk
        return bytes(buf)

    head = read_exact(8)
    if head is None:
        return None
    body = read_exact(struct.unpack("<Q", head)[0])
    return None if body is None else pickle.loads(body)


def tables_digest(ts):
    """Digest of everything except provenance (times, metadata bytes, mutation nodes, ...)."""
    t = ts.dump_tables()
    t.provenances.clear()
    h = hashlib.sha256()
    d = t.asdict()
    for name in sorted(d):
        v = d[name]
        if isinstance(v, dict):
            for col in sorted(v):
                x = v[col]
                h.update(col.encode())
                h.update(np.ascontiguousarray(x).tobytes() if isinstance(x, np.ndarray) else repr(x).encode())
        else:
            h.update(name.encode())
            h.update(np.ascontiguousarray(v).tobytes() if isinstance(v, np.ndarray) else repr(v).encode())
    return h.hexdigest()[:20]


def node_md(ts):
    out = np.full((ts.num_nodes, 2), np.nan)
    for n in ts.nodes():
        md = n.metadata
        if isinstance(md, (bytes, bytearray)):
            try:
                md = json.loads(md.decode()) if md else {}
            except ValueError:
                md = {}
        if isinstance(md, dict):
            out[n.id, 0] = md.get("mn", np.nan)
            out[n.id, 1] = md.get("vr", np.nan)
    return out


class C09Engine(Engine):
    prop = "C09"
    name = "hist"
    level = "exploration"
    chunk = 10
    run_timeout = 1800
    selftest_m = {"quick": 16, "thorough": 64}
    # The main batch runs with the JIT OFF: a fork of the JIT-loaded interpreter costs 0.15 s alone and ~10x that when
    # 16 workers fork concurrently on this VM, against 0.025 s without the JIT; with the process isolation below
    # that is the difference between 0.4 and 30 histories per second.  The restart sweep runs with the JIT ON (the
    # shipped mode): its interpreters execute the first m histories (digests compared among the JIT-on interpreters)
    # plus a private slice of further histories each, with all in-run checks active.
    jit = False
    sweep_hashseeds = {"quick": [0, 1, 2, 3], "thorough": [0, 1, 2, 3, 5, 8, 13, 21, 34, 55, 89, 144]}
    sweep_slice = {"quick": 12, "thorough": 150}
    nojit_sweep_hashseeds = {"quick": [7, 8], "thorough": [7, 8, 9, 10, 11, 12]}
    # For this property a digest that differs between interpreters IS the violation (restart_sweep part), not a
    # defect of the simulator, so the runner's generic fresh-interpreter self-test is replaced by the sweep.  (The
    # same-interpreter second-worker comparison stays a harness error.)
    owns_fresh_check = True
    prior_sweep_hashseeds = {"quick": [0, 1, 2, 3, 4, 5], "thorough": list(range(24))}
    prior_sweep_inputs = {"quick": 40, "thorough": 400}
    prior_sweep = ()

    def prepare(self, tier):
        _setup()
        self.tier = tier
        self.sweep = []
        # the restart sweep pays its own import cost concurrently with the main batch
        if os.environ.get("VERIF_MODE") == "main" and not os.environ.get("VERIF_SKIP_FRESH"):
            m = self.selftest_m[tier]
            n_batch = int(os.environ.get("VERIF_RUNS") or 0) or self.n_runs(tier)
            for j, hs in enumerate(self.sweep_hashseeds[tier]):
                env = fresh_env(hs)
                env["VERIF_FORCE_JIT"] = "1"
                # private slices lie beyond the batch's k range: different histories than the JIT-off batch ran
                env["VERIF_EXTRA_RUNS"] = f"{n_batch + j * self.sweep_slice[tier]}:{self.sweep_slice[tier]}"
                p = subprocess.Popen([sys.executable, os.path.join(VERIF_DIR, "sim", "main.py"), "C09", "--digests",
                                      str(m), "--tier", tier], env=env, stdout=subprocess.PIPE,
                                     stderr=subprocess.PIPE, text=True)
                self.sweep.append((hs, "jit", p))
            for hs in self.nojit_sweep_hashseeds[tier]:
                env = fresh_env(hs)
                env.pop("VERIF_FORCE_JIT", None)
                env.pop("VERIF_EXTRA_RUNS", None)
                p = subprocess.Popen([sys.executable, os.path.join(VERIF_DIR, "sim", "main.py"), "C09", "--digests",
                                      str(m), "--tier", tier], env=env, stdout=subprocess.PIPE,
                                     stderr=subprocess.PIPE, text=True)
                self.sweep.append((hs, "nojit", p))
            # cheap extra hash seeds for the prior-construction code (plain Python, sets/dicts of node ids): JIT off
            self.prior_sweep = []
            for hs in self.prior_sweep_hashseeds[tier]:
                env = fresh_env(hs)
                env["VERIF_NOJIT"] = "1"
                p = subprocess.Popen([sys.executable, os.path.join(VERIF_DIR, "sim", "main.py"), "C09", "--op",
                                      "priorsweep", "--arg", str(self.prior_sweep_inputs[tier]), "--tier", tier],
                                     env=env, stdout=subprocess.PIPE, stderr=subprocess.PIPE, text=True)
                self.prior_sweep.append((hs, p))

    def n_runs(self, tier):
        return {"quick": 1500, "thorough": 60000}[tier]

    def rule(self):
        return ("Each run is a history of 3-9 public-API operations on 1-3 tape-generated tree sequences: "
                "build_prior_grid (shared prior objects), date() with inside_outside / maximization / "
                "variational_gamma and tape-chosen population_size | fresh prior | shared prior, probability_space, "
                "num_threads in {None,1,2,4}, eps, min_branch_length..., repeats of earlier calls, clock jumps. The "
                "process pool is SimMP (arrival order, lazy iterator consumption and pickling decided by the tape). "
                "Oracle: per (input, options modulo num_threads, prior parameters) the output tables must be bit "
                "identical to a clean evaluation (fresh prior, no pool); with a shared prior that has been converted "
                "between probability spaces, equal within rtol 1e-8 (whether the caller's prior object itself changed is "
                "recorded as a probe). Part 'restart_sweep' replays the first runs in fresh interpreters under other "
                "PYTHONHASHSEED values and compares every per-call digest. Non-trivial = the history contained a pool "
                "call with a non-FIFO arrival order, a reused prior or a repeated call; distinct = event-log digest.")

    def assumptions(self):
        return ["SimMP models imap_unordered's observable behaviour (FIFO result queue, at most `processes` running "
                "tasks, lazy pulls, pickling); validated against the real pool on a few calls in the thorough tier",
                "digests are compared only between interpreters in the same (JIT) mode on this machine; the main batch "
                "runs with the JIT off (Python-level code is identical in both modes), the JIT-on mode is covered by the "
                "sweep slices",
                "inputs are sampled by the seeded workload generator (contemporary samples only: the discrete methods "
                "reject anything else)"]

    def components(self):
        return {"real": ["tsdate public API (date, inside_outside, maximization, variational_gamma, build_prior_grid): "
                         "main batch with NUMBA_DISABLE_JIT=1 in fresh copies of the package, sweep slices with compiled "
                         "kernels in forked processes", "the on-disk prior cache (real files in a per-run directory)",
                         "pickle round trips of pool traffic", "tskit"],
                "stubbed": ["multiprocessing.Pool -> sim.simmp.SimPool (scheduling decided by the tape)",
                            "time module of tsdate.core/util/variational and tskit.provenance -> virtual clock"]}

    def expected_probes(self, tier):
        return ["probe.arrival_order_differs_from_submission", "probe.delivered_before_iterator_exhausted",
                "probe.prior_used_log_lin_log", "probe.same_options_under_3_thread_counts",
                "probe.shared_prior_reused", "probe.repeat_call", "probe.cache_file_written",
                "probe.approx_prior_warm_vs_cold", "probe.big_pool_more_than_100_keys"]

    # ------------------------------------------------------------------
    # ------------------------------------------------------------------
    # Process isolation.  The history of a run executes in a forked CHILD of this process and every reference
    # evaluation in a forked GRANDCHILD that is created from this process, which itself never calls into tsdate after
    # the warm-up.  So (a) a run can never be influenced by the runs that came before it in the same worker
    # (module-level state in tsdate would otherwise make digests depend on the order of runs), and (b) the reference a
    # call is compared with is computed in a pristine interpreter state, i.e. it is what a fresh process would
    # return - a call whose output depends on EARLIER calls of the same history differs from it.
    def run(self, tape):
        import numba

        install_cache_seam()
        if numba.config.DISABLE_JIT:
            return self._run_with_module_isolation(tape)
        return self._run_with_fork_isolation(tape)

    def _run_with_module_isolation(self, tape):
        """JIT off: the history runs in a fresh copy of the tsdate package and every reference evaluation in another
        fresh copy (20 ms each), so module-level state of tsdate cannot flow between runs, nor from the history into
        a reference."""
        import shutil
        import tempfile

        def ask_ref(tables, kw_ref, prior_params):
            mods = fresh_tsdate_modules()
            box = tempfile.mkdtemp(prefix="verif-c09-ref-")
            saved = _CACHE_DIR[0]
            _CACHE_DIR[0] = box
            undo, _ = vclock.install(vclock.VClock(tick=0.001), mods["clock_modules"][:3])
            try:
                ts = tables.tree_sequence()
                kw = dict(kw_ref)
                if prior_params is not None:
                    kw["priors"] = self.build_prior(mods["tsdate"], ts, prior_params)
                return self.evaluate(mods["tsdate"], ts, kw)
            finally:
                undo()
                _CACHE_DIR[0] = saved
                shutil.rmtree(box, ignore_errors=True)
                drop_modules(mods)

        mods = fresh_tsdate_modules()
        try:
            return self._run_body(tape, ask_ref, mods)
        finally:
            drop_modules(mods)

    def _run_with_fork_isolation(self, tape):
        import pickle
        import traceback as tb

        c2p_r, c2p_w = os.pipe()
        p2c_r, p2c_w = os.pipe()
        pid = os.fork()
        if pid == 0:  # ---- child: the history
            code = 0
            try:
                os.close(c2p_r)
                os.close(p2c_w)

                def ask_ref(tables, kw_ref, prior_params):
                    _send(c2p_w, ("ref", tables, kw_ref, prior_params))
                    return _recv(p2c_r)

                res = self._run_body(tape, ask_ref)
                res["stats"] = dict(res["stats"])
                _send(c2p_w, ("done", res, tape.values, tape.labels))
            except BaseException as e:  # noqa: BLE001
                try:
                    _send(c2p_w, ("error", f"{type(e).__name__}: {e}\n{tb.format_exc()}"))
                except BaseException:  # noqa: BLE001
                    code = 3
            finally:
                os._exit(code)
        # ---- parent: serves reference requests from pristine state
        os.close(c2p_w)
        os.close(p2c_r)
        try:
            while True:
                msg = _recv(c2p_r)
                if msg is None:
                    raise HarnessError("C09: the process running the history died without a result")
                if msg[0] == "ref":
                    _send(p2c_w, self._pristine_reference(*msg[1:]))
                elif msg[0] == "done":
                    _, res, values, labels = msg
                    tape.values[:] = values
                    tape.labels[:] = labels
                    import collections

                    res["stats"] = collections.Counter(res["stats"])
                    return res
                else:
                    raise HarnessError("C09: history process failed: " + msg[1])
        finally:
            os.close(c2p_r)
            os.close(p2c_w)
            os.waitpid(pid, 0)

    def _pristine_reference(self, tables, kw_ref, prior_params):
        """Evaluate in a grandchild forked from this (pristine) process; cold private cache directory."""
        r, w = os.pipe()
        pid = os.fork()
        if pid == 0:
            code = 0
            try:
                os.close(r)
                import shutil
                import tempfile

                import appdirs

                M = _setup()
                box = tempfile.mkdtemp(prefix="verif-c09-ref-")
                install_cache_seam()
                _CACHE_DIR[0] = box
                clk = vclock.VClock(tick=0.001)
                vclock.install(clk, M["clock_modules"])
                try:
                    ts = tables.tree_sequence()
                    kw = dict(kw_ref)
                    if prior_params is not None:
                        kw["priors"] = self.build_prior(M["tsdate"], ts, prior_params)
                    out = self.evaluate(M["tsdate"], ts, kw)
                finally:
                    shutil.rmtree(box, ignore_errors=True)
                _send(w, out)
            except BaseException as e:  # noqa: BLE001
                try:
                    _send(w, ("harness-error", f"{type(e).__name__}: {e}"))
                except BaseException:  # noqa: BLE001
                    code = 3
            finally:
                os._exit(code)
        os.close(w)
        try:
            out = _recv(r)
        finally:
            os.close(r)
            os.waitpid(pid, 0)
        if out is None or out[0] == "harness-error":
            raise HarnessError(f"C09: reference evaluation failed: {out}")
        return out

    def _run_body(self, tape, ask_ref, mods=None):
        M = mods if mods is not None else _setup()
        tsdate = M["tsdate"]
        res = blank_result()
        log = EventLog()
        stats = res["stats"]
        self._ask_ref = ask_ref
        n_ts = 1 + tape.choose("n_ts", 3)
        inputs = []
        for i in range(n_ts):
            # 30 % diploid individuals: variational_gamma(singletons_phased=False) may then move mutations between the
            # two genomes of an individual ("mutation nodes" in the statement)
            ts, mu, info = workload.gen_msprime(tape, max_samples=6, allow_ancient=False,
                                                allow_internal_samples=False, diploid=None, max_rho=2.0)
            inputs.append((ts, mu))
            log.add("TS", i, sorted(info.items()), mu)
        clk = vclock.VClock(tick=tape.pick("tick", [0.001, 0.0, 1.5]))
        undo_clock, patched = vclock.install(clk, M["clock_modules"])
        mp = simmp.SimMP(tape, stats, log)
        real_mp = M["discrete"].multiprocessing
        M["discrete"].multiprocessing = mp
        # the user cache directory is part of the history: every run starts with a cold cache in its own scratch
        # directory (real files; the appdirs seam only redirects the location)
        import shutil
        import tempfile

        box = tempfile.mkdtemp(prefix="verif-c09-")
        install_cache_seam()
        saved_cache_dir = _CACHE_DIR[0]
        _CACHE_DIR[0] = box
        shared = []  # dicts: prior, params, ts index, original (lin copy), conversions, spaces
        reference = {}  # key -> ("ok", digest, times, md) | ("raised", type)
        seen_threads = {}
        history = []
        try:
            n_ops = 3 + tape.choose("n_ops", 9)
            for opi in range(n_ops):
                kind = tape.pick("op", ["date", "date", "date", "build", "repeat", "clock", "vgamma", "date"])
                if opi == 0 and tape.chance("start_with_build", 0.7):
                    kind = "build"
                if opi == n_ops - 1 and tape.chance("big_pool_call", 0.12):
                    v = self.big_pool_call(tape, M, stats, log)
                    if v:
                        res["violations"].append(v)
                        break
                    continue
                if kind == "clock":
                    dt = tape.pick("dt", [3600.0, -1e6, 0.5, 86400.0 * 400, -3.0])
                    clk.advance(dt)
                    stats["probe.clock_jump_backwards" if dt < 0 else "probe.clock_jump_forwards"] += 1
                    log.add("CLOCK", dt)
                    continue
                if kind == "build":
                    i = tape.choose("ts", n_ts)
                    params = self.draw_prior_params(tape)
                    pr = self.build_prior(tsdate, inputs[i][0], params)
                    shared.append({"prior": pr, "params": params, "ts": i, "orig": pr.grid_data.copy(),
                                   "orig_tp": np.array(pr.timepoints), "orig_nf": np.array(pr.nonfixed_nodes),
                                   "conv": 0, "spaces": [pr.probability_space]})
                    log.add("BUILD", len(shared) - 1, i, sorted(params.items()))
                    continue
                if kind == "repeat" and history:
                    call = dict(history[tape.choose("which", len(history))])
                    stats["probe.repeat_call"] += 1
                    if call["method"] != "variational_gamma":
                        call["num_threads"] = tape.pick("threads", [None, 1, 2, 4])
                elif kind == "vgamma":
                    call = {"ts": tape.choose("ts", n_ts), "method": "variational_gamma",
                            "max_iterations": 1 + tape.choose("vg_it", 4),
                            "rescaling_intervals": tape.pick("vg_resc", [1000, 0, 5]), "prior": None}
                    if inputs[call["ts"]][0].num_individuals > 0:
                        call["singletons_phased"] = bool(tape.pick("vg_phased", [1, 0, 0]))
                        if not call["singletons_phased"]:
                            stats["probe.vgamma_unphased_singletons"] += 1
                else:
                    call = self.draw_call(tape, n_ts, shared)
                history.append(call)
                self.do_call(tsdate, tape, call, inputs, shared, reference, seen_threads, res, log)
                if res["violations"]:
                    break
        finally:
            M["discrete"].multiprocessing = real_mp
            undo_clock()
            _CACHE_DIR[0] = saved_cache_dir
            try:
                if os.path.isdir(os.path.join(box, "cache")) and os.listdir(os.path.join(box, "cache")):
                    stats["probe.cache_file_written"] += 1
            finally:
                shutil.rmtree(box, ignore_errors=True)
        res["events"] = len(history)
        res["sim_time"] = clk.now - 1_700_000_000.0
        res["digest"] = log.digest()
        res["trace"] = log.head[:60]
        res["nontrivial"] = bool(stats.get("probe.arrival_order_differs_from_submission")
                                 or stats.get("probe.shared_prior_reused") or stats.get("probe.repeat_call"))
        res["states"].append(log.digest())
        return res

    def big_pool_call(self, tape, M, stats, log):
        """The pool with hundreds of distinct (mutations, span) jobs: the likelihood precalculation of a larger tree
        sequence (20-40 samples, 30-300 trees) with num_threads in {2, 4} under SimMP must fill exactly the cache that
        the serial path fills.  (The tiny inputs of the date() operations give the pool a dozen jobs at most.)"""
        import msprime

        n = tape.pick("big_n", [20, 30, 40])
        rho = tape.pick("big_rho", [10.0, 40.0, 100.0])
        seed = 1 + tape.choose("big_seed", 2**31 - 2)
        L = 10000
        ts = msprime.sim_ancestry(n, ploidy=1, population_size=1.0, sequence_length=L, recombination_rate=rho / L,
                                  random_seed=seed)
        ts = msprime.sim_mutations(ts, rate=tape.pick("big_theta", [20.0, 100.0]) / L / 4, random_seed=seed + 1)
        discrete = M["discrete"]
        timepoints = np.array([0.0, 0.05, 0.2, 0.5, 1.0, 2.0, 4.0, 9.0])
        threads = tape.pick("big_threads", [2, 4])
        space = tape.pick("big_space", ["Likelihoods", "LogLikelihoods"])
        caches = []
        for nt in (None, threads):
            lik = getattr(discrete, space)(ts, timepoints, 0.01, None, eps=1e-6, fixed_node_set=set(ts.samples()))
            lik.precalculate_mutation_likelihoods(num_threads=nt)
            caches.append(lik.unfixed_likelihood_cache)
        a, b = caches
        stats["big_pool_calls"] += 1
        if len(a) > 100:
            stats["probe.big_pool_more_than_100_keys"] += 1
        log.add("BIGPOOL", n, rho, seed, threads, space, len(a))
        bad = None
        if set(a) != set(b):
            bad = f"key sets differ ({len(a)} vs {len(b)})"
        else:
            for k in a:
                if a[k] is None or b[k] is None or not np.array_equal(np.asarray(a[k]), np.asarray(b[k]), equal_nan=True):
                    bad = f"the likelihood array stored for key (mutations, span)={k} differs"
                    break
        if bad:
            return violation("pool-cache-differs-from-serial", f"precalculate_mutation_likelihoods+pool:{space}",
                             f"{space}.precalculate_mutation_likelihoods(num_threads={threads}) on a tree sequence with "
                             f"{ts.num_samples} samples / {ts.num_trees} trees / {len(a)} distinct (mutations, span) keys "
                             f"(msprime seed {seed}): {bad} compared with num_threads=None")
        return None

    # ------------------------------------------------------------------
    def draw_prior_params(self, tape):
        tp = tape.pick("timepoints", [6, 10, 5, "array", 14])
        return {"Ne": tape.pick("Ne", [1.0, 100.0, 0.3]), "timepoints": tp,
                "distr": tape.pick("distr", ["lognorm", "gamma"]),
                # approximate priors read the on-disk lookup table: cold cache on first use, warm afterwards
                "approx": tape.pick("approx", [0, 0, 7, 20, 7])}

    def build_prior(self, tsdate, ts, params):
        tp = params["timepoints"]
        if tp == "array":
            tp = np.array([0.0, 0.1, 0.3, 0.7, 1.5, 3.0, 8.0]) * params["Ne"]
        kw = {}
        if params.get("approx"):
            kw = dict(approximate_priors=True, approx_prior_size=params["approx"])
        return tsdate.build_prior_grid(ts, population_size=params["Ne"], timepoints=tp,
                                       prior_distribution=params["distr"], **kw)

    def draw_call(self, tape, n_ts, shared):
        call = {"ts": tape.choose("ts", n_ts),
                "method": tape.pick("method", ["inside_outside", "maximization"]),
                "space": tape.pick("space", [None, "linear", "logarithmic"]),
                "num_threads": tape.pick("threads", [None, 1, 2, 4]),
                "eps": tape.pick("eps", [None, 1e-6]),
                "mbl": tape.pick("mbl", [None, 1e-3]),
                "opts": tape.pick("io_opts", [0, 1, 2])}
        usable = [j for j, s in enumerate(shared) if s["ts"] == call["ts"]]
        src = tape.pick("prior_src", ["popsize", "shared", "fresh", "shared", "shared"])
        if src == "shared" and usable:
            call["prior"] = ("shared", usable[tape.choose("which_prior", len(usable))])
        elif src == "fresh":
            call["prior"] = ("fresh", self.draw_prior_params(tape))
        else:
            call["prior"] = ("popsize", tape.pick("Ne", [1.0, 100.0, 0.3]))
        return call

    def call_key(self, call, shared):
        if call["method"] == "variational_gamma":
            return ("vg", call["ts"], call["max_iterations"], call["rescaling_intervals"],
                    call.get("singletons_phased", True))
        kind, x = call["prior"]
        if kind == "shared":
            pk = tuple(sorted(shared[x]["params"].items()))
        elif kind == "fresh":
            pk = tuple(sorted(x.items()))
        else:
            pk = ("popsize", x)
        return ("d", call["ts"], call["method"], call["space"], call["eps"], call["mbl"], call["opts"], pk)

    def kwargs_for(self, call, mu):
        if call["method"] == "variational_gamma":
            kw = dict(mutation_rate=mu, method="variational_gamma", max_iterations=call["max_iterations"],
                      rescaling_intervals=call["rescaling_intervals"])
            if "singletons_phased" in call:
                kw["singletons_phased"] = call["singletons_phased"]
            return kw
        kw = dict(mutation_rate=mu, method=call["method"])
        if call["space"] is not None:
            kw["probability_space"] = call["space"]
        if call["eps"] is not None:
            kw["eps"] = call["eps"]
        if call["mbl"] is not None:
            kw["min_branch_length"] = call["mbl"]
        if call["method"] == "inside_outside":
            if call["opts"] == 1:
                kw["outside_standardize"] = False
            elif call["opts"] == 2:
                kw["ignore_oldest_root"] = True
        return kw

    def evaluate(self, tsdate, ts, kw):
        try:
            out = tsdate.date(ts, **kw)
        except Exception as e:  # noqa: BLE001 - a deterministic error is a result like any other
            return ("raised", type(e).__name__, str(e)[:80])
        return ("ok", tables_digest(out), np.array(out.nodes_time), node_md(out))

    def do_call(self, tsdate, tape, call, inputs, shared, reference, seen_threads, res, log):
        stats = res["stats"]
        ts, mu = inputs[call["ts"]]
        key = self.call_key(call, shared)
        kw = self.kwargs_for(call, mu)
        # ---- clean reference: fresh prior, no pool -----------------------------------------
        if key not in reference:
            kw_ref = dict(kw)
            prior_params = None
            if call["method"] != "variational_gamma":
                kind, x = call["prior"]
                if kind == "popsize":
                    kw_ref["population_size"] = x
                else:
                    prior_params = shared[x]["params"] if kind == "shared" else x
            reference[key] = self._ask_ref(ts.dump_tables(), kw_ref, prior_params)
            stats["reference_evaluations"] += 1
        ref = reference[key]
        if call["method"] != "variational_gamma":
            kind_, x_ = call["prior"]
            prm = shared[x_]["params"] if kind_ == "shared" else (x_ if kind_ == "fresh" else {})
            if prm.get("approx") and kind_ == "fresh":
                stats["probe.approx_prior_warm_vs_cold"] += 1  # the reference was built cold (or earlier), this one warm
        # ---- the call itself --------------------------------------------------------------------
        conv_before = None
        sh = None
        if call["method"] != "variational_gamma":
            kw["num_threads"] = call["num_threads"]
            kind, x = call["prior"]
            if kind == "popsize":
                kw["population_size"] = x
            elif kind == "fresh":
                kw["priors"] = self.build_prior(tsdate, ts, x)
            else:
                sh = shared[x]
                kw["priors"] = sh["prior"]
                stats["probe.shared_prior_reused"] += 1
                conv_before = sh["conv"]
                want = "linear" if call["space"] == "linear" else "logarithmic"
                if sh["prior"].probability_space != want:
                    sh["conv"] += 1
                sh["spaces"].append(want)
                sp = sh["spaces"]
                if len(sp) >= 3 and any(sp[i] == "logarithmic" and sp[i + 1] == "linear" and "logarithmic" in sp[i + 2:]
                                        for i in range(len(sp) - 2)):
                    stats["probe.prior_used_log_lin_log"] += 1
            tset = seen_threads.setdefault(key, set())
            tset.add(call["num_threads"])
            if len(tset) >= 3:
                stats["probe.same_options_under_3_thread_counts"] += 1
        got = self.evaluate(tsdate, ts, kw)
        stats["calls." + call["method"]] += 1
        log.add("CALL", sorted((k, str(v)) for k, v in call.items()), got[0], got[1])
        site = call["method"] + ("+shared-prior" if sh is not None else "") + (
            "+pool" if call.get("num_threads") not in (None, 1) else "")
        converted = sh is not None and sh["conv"] > 0
        if got[0] != ref[0] or (got[0] == "raised" and got[1] != ref[1]):
            res["violations"].append(violation(
                "outcome-differs", site,
                f"call {call} gave {got[:2]} but the clean evaluation (fresh prior, no pool) gave {ref[:2]}"))
        elif got[0] == "ok":
            if not converted:
                if got[1] != ref[1]:
                    res["violations"].append(violation(
                        "not-bit-identical", site,
                        f"call {call}: output tables differ from the clean evaluation of the same input and options "
                        f"(max |dt|={float(np.nanmax(np.abs(got[2] - ref[2]))):.3e}); history position {len(log.head)}"))
                else:
                    stats["bit_identical_checks"] += 1
            else:
                stats["tolerance_checks"] += 1
                if call["method"] == "maximization":
                    if not np.allclose(got[2], ref[2], rtol=1e-8, atol=0):
                        stats["probe.maximization_tie_flip_after_conversion"] += 1
                else:
                    okt = np.allclose(got[2], ref[2], rtol=1e-8, atol=0)
                    okm = np.allclose(got[3], ref[3], rtol=1e-8, atol=0, equal_nan=True)
                    if not (okt and okm):
                        res["violations"].append(violation(
                            "prior-reuse-changes-result", site,
                            f"call {call} with a shared prior converted {sh['conv']}x between probability spaces differs "
                            f"from a fresh-prior evaluation beyond rtol 1e-8 (max rel dt="
                            f"{float(np.nanmax(np.abs(got[2] - ref[2]) / np.maximum(np.abs(ref[2]), 1e-300))):.3e})"))
        # ---- the shared prior after the call -----------------------------------------------------
        if sh is not None:
            pr = sh["prior"]
            g = pr.grid_data
            if pr.probability_space == "logarithmic":
                with np.errstate(all="ignore"):
                    g = np.exp(g)
            tol = 1e-11 * max(1, sh["conv"])
            same = (g.shape == sh["orig"].shape and np.allclose(g, sh["orig"], rtol=tol, atol=1e-280, equal_nan=True)
                    and np.array_equal(np.array(pr.timepoints), sh["orig_tp"])
                    and np.array_equal(np.array(pr.nonfixed_nodes), sh["orig_nf"]))
            if not same:
                # The statement is about RESULTS of reuse ("gives the same results ... as building a fresh one"), which
                # the comparisons above decide at every later call; a modification of the caller's object that never
                # changes a result is not a violation, so this is recorded, not judged.
                stats["probe.shared_prior_object_modified"] += 1

    # ------------------------------------------------------------------
    def extra_parts(self, tier, pool, seed):
        parts = []
        per_k = getattr(self, "batch_per_k", {})
        if self.sweep:
            viol = []
            checked = 0
            jit_runs = 0
            known_seen = {}
            base = {}  # mode -> (hashseed, digests) to compare with: the batch for JIT-off, the first interpreter for JIT-on
            base["nojit"] = (0, {str(k): d for k, d in per_k.items()})
            for hs, mode, p in self.sweep:
                try:
                    out, err = p.communicate(timeout=6000)
                except subprocess.TimeoutExpired:
                    p.kill()
                    raise HarnessError(f"restart sweep (PYTHONHASHSEED={hs}, {mode}) timed out")
                if p.returncode != 0:
                    raise HarnessError(f"restart sweep (PYTHONHASHSEED={hs}, {mode}) failed rc={p.returncode}: "
                                       f"{err[-1500:]}")
                line = [ln for ln in out.splitlines() if ln.startswith("DIGESTS ")]
                if not line:
                    raise HarnessError(f"restart sweep (PYTHONHASHSEED={hs}, {mode}) printed no digests")
                fd = json.loads(line[-1][8:])
                if mode == "jit":
                    jit_runs += sum(json.loads(ln[5:]) for ln in out.splitlines() if ln.startswith("RUNS "))
                    for ln in out.splitlines():
                        if ln.startswith("VIOL "):
                            v = json.loads(ln[5:])
                            if v.get("known"):
                                known_seen[v["known"]] = known_seen.get(v["known"], 0) + 1
                                continue
                            viol.append({"cls": v["cls"], "site": v["site"] + ":jit-on",
                                         "detail": f"(JIT on, PYTHONHASHSEED={hs}, run k={v['k']}) " + v["detail"],
                                         "replay_args": {"jit_run": True, "k": v["k"], "hashseed": hs, "seed": seed,
                                                         "tier": tier, "cls": v["cls"], "site": v["site"]}})
                if mode not in base:
                    base[mode] = (hs, fd)
                    continue
                bhs, bd = base[mode]
                for k, d in sorted(bd.items(), key=lambda x: int(x[0])):
                    checked += 1
                    if fd.get(k) != d:
                        viol.append({"cls": "restart-nondeterminism", "site": "fresh-interpreter",
                                     "detail": f"run k={k} (VERIF_SEED={seed}, {mode}) gives event-log digest {fd.get(k)} in a "
                                               f"fresh interpreter with PYTHONHASHSEED={hs} but {d} with "
                                               f"PYTHONHASHSEED={bhs}: some per-call output digest differs across process "
                                               f"restarts",
                                     "replay_args": {"k": int(k), "hashseeds": [bhs, hs], "mode": mode, "seed": seed,
                                                     "tier": tier}})
                        break
            for what, n in known_seen.items():
                print(f"KNOWN-FINDING: property=C09 {what} (seen {n}x in the JIT-on slices)")
            parts.append({"name": "restart_sweep", "evaluations": checked + jit_runs, "distinct_nontrivial": checked,
                          "interpreters": [(hs, mode) for hs, mode, _ in self.sweep],
                          "digest_comparisons": checked, "jit_on_histories_run_with_all_checks": jit_runs,
                          "violations": viol[:3],
                          "samples": [{"what": "per-run event-log digests (each includes every call's output-table "
                                               "digest) recomputed in fresh interpreters; JIT-on interpreters also run a "
                                               "private slice of histories each with all in-run checks",
                                       "interpreters": [(hs, mode) for hs, mode, _ in self.sweep]}]})
        if self.prior_sweep:
            outs = {}
            for hs, p in self.prior_sweep:
                try:
                    out, err = p.communicate(timeout=1800)
                except subprocess.TimeoutExpired:
                    p.kill()
                    raise HarnessError(f"prior sweep (PYTHONHASHSEED={hs}) timed out")
                line = [ln for ln in out.splitlines() if ln.startswith("PRIORS ")]
                if p.returncode != 0 or not line:
                    raise HarnessError(f"prior sweep (PYTHONHASHSEED={hs}) failed rc={p.returncode}: {err[-1500:]}")
                outs[hs] = json.loads(line[-1][7:])
            base_hs = self.prior_sweep[0][0]
            viol = []
            n_cmp = 0
            for hs, d in outs.items():
                for k, dig in outs[base_hs].items():
                    n_cmp += 1
                    if d.get(k) != dig and not viol:
                        viol.append({"cls": "restart-nondeterminism", "site": "prior-construction",
                                     "detail": f"build_prior_grid on generated input #{k} (VERIF_SEED={seed}) gives prior "
                                               f"digest {d.get(k)} under PYTHONHASHSEED={hs} but {dig} under "
                                               f"PYTHONHASHSEED={base_hs} (JIT off, fresh interpreters)",
                                     "replay_args": {"prior_sweep": True, "k": int(k), "hashseeds": [base_hs, hs],
                                                     "seed": seed, "tier": tier}})
            parts.append({"name": "prior_hashseed_sweep", "evaluations": n_cmp, "distinct_nontrivial": len(outs[base_hs]),
                          "hashseeds": sorted(outs), "inputs": len(outs[base_hs]), "violations": viol,
                          "samples": [{"what": "sha256 of grid_data/timepoints/nonfixed_nodes of build_prior_grid over "
                                               "generated inputs, recomputed in fresh JIT-off interpreters",
                                       "first": dict(list(outs[base_hs].items())[:2])}]})
        if tier == "thorough":
            parts.append(self.stub_validation())
        return parts

    def sub_operation(self, op, arg, tier, seed):
        if op != "priorsweep":
            raise HarnessError(f"unknown sub-operation {op}")
        import warnings

        import tsdate

        from ..tape import Tape, sub_seed

        warnings.simplefilter("ignore")
        out = {}
        for k in range(int(arg)):
            tp = Tape(seed=sub_seed(seed, "C09-priors", k))
            ts, mu, info = workload.gen_msprime(tp, max_samples=8, allow_ancient=False, allow_internal_samples=False,
                                                diploid=False, max_rho=4.0)
            params = self.draw_prior_params(tp)
            params["approx"] = 0
            pr = self.build_prior(tsdate, ts, params)
            h = hashlib.sha256()
            h.update(np.ascontiguousarray(pr.grid_data).tobytes())
            h.update(np.ascontiguousarray(pr.timepoints).tobytes())
            h.update(np.ascontiguousarray(pr.nonfixed_nodes).tobytes())
            out[str(k)] = h.hexdigest()[:16]
        print("PRIORS " + json.dumps(out))
        return 0

    def stub_validation(self):
        """Not an oracle: a few calls through the REAL multiprocessing.Pool must give the same tables as SimMP."""
        M = _setup()
        from ..tape import Tape

        tsdate = M["tsdate"]
        n_ok = 0
        for s in range(4):
            tp = Tape(seed=1000 + s)
            ts, mu, info = workload.gen_msprime(tp, max_samples=6, allow_ancient=False, allow_internal_samples=False,
                                                diploid=False)
            kw = dict(mutation_rate=mu, method="inside_outside", population_size=1.0)
            a = self.evaluate(tsdate, ts, dict(kw, num_threads=2))  # real pool
            import collections

            mp = simmp.SimMP(tp, collections.Counter())
            real = M["discrete"].multiprocessing
            M["discrete"].multiprocessing = mp
            try:
                b = self.evaluate(tsdate, ts, dict(kw, num_threads=2))
            finally:
                M["discrete"].multiprocessing = real
            if a[:2] != b[:2]:
                raise HarnessError(f"stub validation: real pool {a[:2]} vs SimMP {b[:2]}")
            n_ok += 1
        return {"name": "simmp_stub_validation", "evaluations": n_ok, "distinct_nontrivial": n_ok, "violations": [],
                "samples": [{"what": "real multiprocessing.Pool vs SimMP output digests equal", "calls": n_ok}]}

    def replay_part(self, doc):
        a = doc["violation"]["replay_args"]
        if a.get("jit_run"):
            env = fresh_env(a["hashseed"])
            env["VERIF_FORCE_JIT"] = "1"
            env["VERIF_SEED"] = str(a["seed"])
            env["VERIF_EXTRA_RUNS"] = f"{a['k']}:1"
            p = subprocess.run([sys.executable, os.path.join(VERIF_DIR, "sim", "main.py"), "C09", "--digests", "0",
                                "--tier", a["tier"]], env=env, capture_output=True, text=True)
            hits = [json.loads(ln[5:]) for ln in p.stdout.splitlines() if ln.startswith("VIOL ")]
            hit = [h for h in hits if h["cls"] == a["cls"] and h["site"] == a["site"]]
            return bool(hit), (hit[0]["detail"] if hit else f"violations now: {hits}")
        if "hashseeds" in a and "mode" in a:
            digs = []
            for hs in a["hashseeds"]:
                env = fresh_env(hs)
                env["VERIF_SEED"] = str(a["seed"])
                env.pop("VERIF_EXTRA_RUNS", None)
                if a["mode"] == "jit":
                    env["VERIF_FORCE_JIT"] = "1"
                else:
                    env.pop("VERIF_FORCE_JIT", None)
                p = subprocess.run([sys.executable, os.path.join(VERIF_DIR, "sim", "main.py"), "C09", "--digests",
                                    str(a["k"] + 1), "--tier", a["tier"]], env=env, capture_output=True, text=True)
                line = [ln for ln in p.stdout.splitlines() if ln.startswith("DIGESTS ")]
                digs.append(json.loads(line[-1][8:]).get(str(a["k"])) if line else None)
            return digs[0] != digs[1], f"digests of run {a['k']} under PYTHONHASHSEED {a['hashseeds']} ({a['mode']}): {digs}"
        if a.get("prior_sweep"):
            digs = []
            for hs in a["hashseeds"]:
                env = fresh_env(hs)
                env["VERIF_NOJIT"] = "1"
                env["VERIF_SEED"] = str(a["seed"])
                p = subprocess.run([sys.executable, os.path.join(VERIF_DIR, "sim", "main.py"), "C09", "--op",
                                    "priorsweep", "--arg", str(a["k"] + 1)], env=env, capture_output=True, text=True)
                line = [ln for ln in p.stdout.splitlines() if ln.startswith("PRIORS ")]
                digs.append(json.loads(line[-1][7:]).get(str(a["k"])) if line else None)
            return digs[0] != digs[1], f"prior digests under PYTHONHASHSEED {a['hashseeds']}: {digs}"
        from ..runner import run_one
        from ..tape import sub_seed

        r = run_one(self, seed=sub_seed(a["seed"], "C09", a["k"]))
        env = fresh_env(a["hashseed"])
        env["VERIF_SEED"] = str(a["seed"])
        p = subprocess.run([sys.executable, os.path.join(VERIF_DIR, "sim", "main.py"), "C09", "--digests",
                            str(a["k"] + 1), "--tier", a["tier"]], env=env, capture_output=True, text=True)
        line = [ln for ln in p.stdout.splitlines() if ln.startswith("DIGESTS ")]
        fd = json.loads(line[-1][8:]) if line else {}
        other = fd.get(str(a["k"]))
        return other != r["digest"], f"this interpreter: {r['digest']}; PYTHONHASHSEED={a['hashseed']}: {other}"
