"""C36 - the precomputed prior cache is crash-safe and exact   (engine `fs`).

System under simulation (real code): ConditionalCoalescentTimes.__init__,
precalculate_priors_for_approximation, get_precalc_cache, cache.get_cache_dir,
add(..., approximate=True), numpy savetxt/genfromtxt, CPython's io buffering.
Stubbed: the kernel's file layer (sim.fs.SimFS), appdirs.user_cache_dir
(virtual root), pid, clock.
"""

import errno
import hashlib
import os
import traceback

from .. import fs as simfs
from ..runner import Engine, HarnessError, blank_result, violation
from ..tape import EventLog, Tape

CACHE_HOME = simfs.VROOT + "/home/user/.cache"

N_CHOICES = [2, 3, 4, 5, 7, 9, 12, 16, 24, 31, 47, 60]
BUF_CHOICES = [8192, 1, 16, 64, 300, 1500]
CHUNK_CHOICES = [1 << 30, 1 << 30, 1000, 200, 50]
STYLES = ["random", "sticky", "fifo"]

ENUM_CONFIGS = {
    "quick": [(2, 1), (2, 64), (2, 8192), (7, 1), (7, 64), (7, 8192), (31, 64)],
    "thorough": [(n, b) for n in (2, 7, 31) for b in (1, 64, 8192)] + [(60, 300), (12, 16)],
}


def _user_cache_dir(appname=None, appauthor=None, *a, **kw):
    if simfs.ACTIVE is None:
        return _REAL_USER_CACHE_DIR(appname, appauthor, *a, **kw)
    return os.path.join(CACHE_HOME, appname or "")


_REAL_USER_CACHE_DIR = None


class C36Engine(Engine):
    prop = "C36"
    name = "fs"
    level = "exploration"
    jit = False
    chunk = 250
    selftest_m = {"quick": 40, "thorough": 200}

    def prepare(self, tier):
        global _REAL_USER_CACHE_DIR
        import appdirs
        import numpy as np

        import tsdate
        import tsdate.cache
        import tsdate.prior

        repo = os.path.realpath(os.environ.get("TSDATE_REPO", "/repo"))
        if not os.path.realpath(tsdate.__file__).startswith(repo):
            raise HarnessError(f"tsdate imported from {tsdate.__file__}, expected under {repo}")
        self.np = np
        self.prior = tsdate.prior
        self.tsdate = tsdate
        import msprime

        self.small_ts = msprime.sim_ancestry(4, ploidy=1, population_size=1.0, sequence_length=100,
                                             recombination_rate=0.01, random_seed=5)
        if tsdate.cache.appdirs is not appdirs or not hasattr(tsdate.cache, "get_cache_dir"):
            raise HarnessError("seam mismatch: tsdate.cache no longer uses appdirs.user_cache_dir")
        if _REAL_USER_CACHE_DIR is None:
            _REAL_USER_CACHE_DIR = appdirs.user_cache_dir
            appdirs.user_cache_dir = _user_cache_dir
        self.real_cache_dir = _REAL_USER_CACHE_DIR("tsdate", "tsdate")
        self.real_listing = self._real_listing()
        simfs.install()
        self._ref = {}
        # silence the "Initialising your tsdate installation" warning of every simulated writer
        import logging
        import warnings

        logging.getLogger().setLevel(logging.ERROR)
        warnings.simplefilter("ignore")
        # probe that the seam really captures the cache file
        ref = self.reference(5, "lognorm", 7)
        if not ref["file_bytes"]:
            raise HarnessError("seam mismatch: a fault-free ConditionalCoalescentTimes(5) wrote no file into the "
                               "simulated file system")

    def _real_listing(self):
        try:
            return sorted(os.listdir(self.real_cache_dir))
        except OSError:
            return None

    def check_no_leak(self):
        if self._real_listing() != self.real_listing:
            raise HarnessError(f"seam leaked: real cache directory {self.real_cache_dir} changed during the batch")

    # ------------------------------------------------------------------
    def n_runs(self, tier):
        return {"quick": 20000, "thorough": 1500000}[tier]

    def rule(self):
        return ("Each run: 1-4 simulated processes construct ConditionalCoalescentTimes(n_approx) and call "
                "add(total_tips, approximate=True) against one simulated cache directory, under a tape-chosen "
                "interleaving (styles random/sticky/fifo), io buffer size and read chunk size, with 0-3 process "
                "kills at tape-chosen scheduling points or byte offsets inside a raw write and, for some actors, one "
                "transient disk-full error (partial write then ENOSPC); a quarter of the runs use two table sizes in "
                "one directory; then a fault-free later run per size. Non-trivial = a kill fired or two processes overlapped on the cache file; distinct = distinct "
                "event-log digest. Part 'crash_point_enumeration' additionally enumerates every kill point of a "
                "single writer for the listed (n_approx, bufsize) configurations (exhaustive for those).")

    def assumptions(self):
        return [
            "process-crash model: bytes handed to the simulated kernel survive, un-flushed user-space buffers are "
            "lost; power loss / fsync ordering is not modelled",
            "the simulated POSIX layer (sim/fs.py) is faithful for open/read/write/close/rename/replace/unlink/"
            "link/mkdir/stat/flock on regular files; unsupported operations on virtual paths raise a harness error",
            "table arithmetic runs with NUMBA_DISABLE_JIT=1 (plain Python); file handling code is identical",
        ]

    def components(self):
        return {
            "real": ["tsdate.prior.ConditionalCoalescentTimes (__init__, precalculate_priors_for_approximation, "
                     "get_precalc_cache, add, tau_var_lookup)", "tsdate.cache.get_cache_dir incl. os.makedirs race",
                     "numpy.savetxt / numpy.genfromtxt / numpy DataSource", "CPython io.TextIOWrapper/BufferedWriter/"
                     "BufferedReader, tempfile, os.path"],
            "stubbed": ["kernel file layer -> sim.fs.SimFS (inodes, descriptors, directories, flock)",
                        "appdirs.user_cache_dir -> virtual root", "os.getpid -> simulated pid",
                        "time.time/monotonic/sleep -> virtual clock", "OS processes -> baton-passing threads"],
        }

    def expected_probes(self, tier):
        return ["probe.reader_opened_while_a_writer_was_active", "probe.context_switch", "fault.torn_write",
                "fault.crash"]

    # ------------------------------------------------------------------
    def reference(self, n, distr, total_tips):
        """Freshly computed table (by the real code, in a private empty world)."""
        key = (n, distr, total_tips)
        r = self._ref.get(key)
        if r is None:
            base = self._ref.get((n,))
            if base is None:
                w = simfs.World(Tape(values=[]), EventLog(keep=0))
                out = {}

                def fresh():
                    cct = self.prior.ConditionalCoalescentTimes(n)
                    out["table"] = self.np.array(cct.approx_priors, copy=True)

                w.spawn("ref", fresh)
                w.run()
                p = w.procs[0]
                if p.state != "done":
                    raise HarnessError(f"reference computation failed: {p.error!r}")
                files = w.fs.snapshot()
                base = {"table": out["table"], "files": files}
                self._ref[(n,)] = base
            cct = self.prior.ConditionalCoalescentTimes(0, prior_distr=distr)
            cct.approx_priors = base["table"].copy()
            cct.add(total_tips, approximate=True)
            fb = [v for k, v in base["files"].items()]
            r = {"table": base["table"], "priors": cct[total_tips].copy(),
                 "file_bytes": fb[0] if len(fb) == 1 else b"", "file_names": list(base["files"])}
            self._ref[key] = r
        return r

    def reference_grid(self, n, distr):
        key = ("grid", n, distr)
        g = self._ref.get(key)
        if g is None:
            w = simfs.World(Tape(values=[]), EventLog(keep=0))
            out = {}

            def fresh():
                pr = self.tsdate.build_prior_grid(self.small_ts, population_size=1.0, timepoints=6,
                                                  approximate_priors=True, approx_prior_size=n,
                                                  prior_distribution=distr)
                out["g"] = self.np.array(pr.grid_data, copy=True)

            w.spawn("refgrid", fresh)
            w.run()
            if w.procs[0].state != "done":
                raise HarnessError(f"reference grid computation failed: {w.procs[0].error!r}")
            g = out["g"]
            self._ref[key] = g
        return g

    # ------------------------------------------------------------------
    def spec_from_tape(self, tape):
        n = tape.pick("n_approx", N_CHOICES)
        bufsize = tape.pick("bufsize", BUF_CHOICES)
        chunk = tape.pick("read_chunk", CHUNK_CHOICES)
        style = tape.pick("style", STYLES)
        n_actors = 1 + tape.choose("n_actors", 4)
        total_tips = 2 + tape.choose("total_tips", 40)
        distr = tape.pick("distr", ["lognorm", "gamma"])
        est = 22 + min(n, (52 * n) // max(1, bufsize) + 1)
        actors = []
        n_crash_budget = tape.pick("n_crashes", [0, 1, 1, 2, 3])
        # a second table size in the same cache directory (different files must not disturb each other)
        n2 = tape.pick("n_approx_2", N_CHOICES) if tape.chance("two_sizes", 0.25) else n
        for i in range(n_actors):
            a = {"die_at": None, "torn_frac": 0.0, "kind": "grid" if tape.chance("actor_kind_grid", 0.15) else "cct",
                 "n": n2 if (n2 != n and tape.chance("uses_n2", 0.5)) else n}
            if n_crash_budget > 0 and tape.chance("doomed", 0.6):
                n_crash_budget -= 1
                a["die_at"] = 1 + tape.choose("die_at", est + 4)
                a["torn_frac"] = tape.uniform("torn", 0.0, 1.0)
            elif tape.chance("disk_full_once", 0.12):
                # transient disk-full: the first write at or after this step fails with ENOSPC after a partial write
                a["enospc_at"] = 1 + tape.choose("enospc_at", est + 4)
                a["enospc_frac"] = tape.uniform("enospc_frac", 0.0, 1.0)
            actors.append(a)
        return {"n": n, "bufsize": bufsize, "read_chunk": chunk, "style": style, "total_tips": total_tips,
                "distr": distr, "actors": actors}

    def run(self, tape):
        spec = self.spec_from_tape(tape)
        return self.run_scenario(spec, tape)

    def run_scenario(self, spec, tape, record_steps=False):
        np = self.np
        res = blank_result()
        log = EventLog()
        n, distr, tt = spec["n"], spec["distr"], spec["total_tips"]
        ref = self.reference(n, distr, tt)
        log.add("SPEC", n, spec["bufsize"], spec["read_chunk"], spec["style"], tt, distr,
                [(a["die_at"], a.get("torn_k"), round(a["torn_frac"], 6), a.get("n", n), a.get("enospc_at"),
                  round(a.get("enospc_frac", 0.0), 6)) for a in spec["actors"]])
        w = simfs.World(tape, log, {"bufsize": spec["bufsize"], "read_chunk": spec["read_chunk"],
                                    "style": spec["style"]}, record_steps=record_steps)

        def make_actor(n_):
            def actor():
                cct = self.prior.ConditionalCoalescentTimes(n_, prior_distr=distr)
                cct.add(tt, approximate=True)
                return np.array(cct.approx_priors, copy=True), np.array(cct[tt], copy=True)
            return actor

        def make_actor_grid(n_):
            def actor_grid():
                # the same cache reached through the public API: build_prior_grid(approximate_priors=True)
                pr = self.tsdate.build_prior_grid(self.small_ts, population_size=1.0, timepoints=6,
                                                  approximate_priors=True, approx_prior_size=n_,
                                                  prior_distribution=distr)
                return None, np.array(pr.grid_data, copy=True)
            return actor_grid

        sizes = []
        for i, a in enumerate(spec["actors"]):
            n_ = a.get("n", n)
            if n_ not in sizes:
                sizes.append(n_)
            fn = make_actor_grid(n_) if a.get("kind") == "grid" else make_actor(n_)
            w.spawn(f"run{i}", fn, die_at=a["die_at"], torn_frac=a["torn_frac"], torn_k=a.get("torn_k"))
            w.procs[-1].kind = a.get("kind", "cct")
            w.procs[-1].n = n_
            if a.get("enospc_at"):
                w.procs[-1].enospc_at = a["enospc_at"]
                w.procs[-1].enospc_frac = a.get("enospc_frac", 0.0)
        if len(sizes) > 1:
            w.probe("two_table_sizes_in_one_directory")
        w.run(max_steps=60000)
        if w.step_cap_hit or w.deadlock:
            res["violations"].append(violation(
                "run-stuck", "concurrent-runs",
                f"simulated processes made no progress ({'deadlock' if w.deadlock else 'step cap'}) spec={spec}"))
        for p in w.procs:
            self._judge(p, self.reference(p.n, distr, tt), "concurrent-run", res, spec, w)

        # the state later runs find
        snap = w.fs.snapshot()
        final = [k for k in snap if os.path.basename(k).startswith("prior_") and k.endswith(".txt")
                 and os.path.basename(k) in [os.path.basename(x) for x in ref["file_names"]]]
        if not final:
            w.probe("later_found_no_file" if not snap else "later_found_litter_only")
        elif snap[final[0]] == ref["file_bytes"]:
            w.probe("later_found_complete_file")
        else:
            w.probe("later_found_partial_file")
        if len(snap) > len(final):
            w.probe("litter_present")
        res["states"].append((n, hashlib.sha256(repr(sorted(snap.items())).encode()).hexdigest()[:16]))

        for n_ in sizes or [n]:
            later = w.spawn("later", make_actor(n_))
            later.kind = "cct"
            later.n = n_
            w.run(max_steps=60000)
            if w.step_cap_hit or w.deadlock:
                res["violations"].append(violation(
                    "later-run-stuck", "later-run",
                    f"fault-free later run did not finish within the step budget (bounded liveness) spec={spec}"))
                break
            self._judge(later, self.reference(n_, distr, tt), "later-run", res, spec, w)

        res["stats"].update(w.stats)
        res["stats"]["actors"] = len(spec["actors"])
        res["events"] = w.events
        res["sim_time"] = w.clock - w.t0
        res["digest"] = log.digest()
        res["trace"] = log.head
        res["nontrivial"] = bool(w.stats.get("fault.crash") or w.stats.get("probe.reader_opened_during_write")
                                 or w.stats.get("probe.two_writers_same_inode")
                                 or w.stats.get("probe.context_switch"))
        res["procs"] = w.procs if record_steps else None
        return res

    def _judge(self, p, ref, site, res, spec, w):
        np = self.np
        if isinstance(p.error, HarnessError):
            raise p.error
        if p.killed or p.state == "dead":
            return
        if p.state == "error":
            e = p.error
            if p.enospc_fired and isinstance(e, OSError) and getattr(e, "errno", None) == errno.ENOSPC:
                # deliberate, narrow relaxation: a run that was handed a disk-full error may fail with exactly that
                # error; it must not return wrong data, and later runs are judged as always
                w.probe("run_failed_with_injected_enospc")
                w.log.add(p.pid, "JUDGE", "enospc-propagated")
                return
            tb = traceback.extract_tb(e.__traceback__)
            fn = "?"
            for fr in tb:
                if os.sep + "tsdate" + os.sep in fr.filename:
                    fn = fr.name
            res["violations"].append(violation(
                "run-error", f"{site}:{type(e).__name__}@{fn}",
                f"{p.name} (pid {p.pid}) neither used a correct table nor recomputed it: it raised "
                f"{type(e).__name__}: {e} spec={spec}"))
            w.log.add(p.pid, "JUDGE", "error", type(e).__name__)
            return
        if p.state != "done":
            return
        table, priors = p.result
        if getattr(p, "kind", "cct") == "grid":
            g = self.reference_grid(getattr(p, "n", spec["n"]), spec["distr"])
            ok = priors.shape == g.shape and np.array_equal(priors, g, equal_nan=True)
            w.log.add(p.pid, "JUDGE-GRID", ok)
            if not ok:
                res["violations"].append(violation(
                    "silent-wrong-table", site + ":build_prior_grid",
                    f"{p.name} (pid {p.pid}): build_prior_grid(approximate_priors=True, approx_prior_size={getattr(p, 'n', spec['n'])}) "
                    f"completed normally but its prior grid differs from the one built on a freshly computed table "
                    f"(max |d|={float(np.nanmax(np.abs(priors - g))) if priors.shape == g.shape else 'shape'}); "
                    f"spec={spec}"))
            return
        ok_t = table.shape == ref["table"].shape and np.array_equal(table, ref["table"], equal_nan=True)
        ok_p = priors.shape == ref["priors"].shape and np.array_equal(priors, ref["priors"], equal_nan=True)
        w.log.add(p.pid, "JUDGE", ok_t, ok_p)
        if not (ok_t and ok_p):
            if table.shape != ref["table"].shape:
                how = f"table shape {table.shape} instead of {ref['table'].shape}"
            elif not ok_t:
                bad = np.argwhere(~np.isclose(table, ref["table"], rtol=0, atol=0, equal_nan=True))
                r0 = tuple(int(x) for x in bad[0])
                how = (f"{len(bad)} cells differ, first at {r0}: got {table[r0]!r} expected {ref['table'][r0]!r}")
            else:
                how = "table equal but derived priors differ"
            res["violations"].append(violation(
                "silent-wrong-table", site,
                f"{p.name} (pid {p.pid}) completed normally but holds a table that is not the freshly computed one: "
                f"{how}; spec={spec}"))

    # ------------------------------------------------------------------
    # part (a): crash-point enumeration, exhaustive for the listed configurations
    def extra_parts(self, tier, pool, seed):
        self.check_no_leak()
        configs = ENUM_CONFIGS[tier]
        jobs = []
        total_points = 0
        info = []
        for n, bufsize in configs:
            steps = self.writer_steps(n, bufsize)
            pts = []
            for s, (kind, nbytes) in enumerate(steps, start=1):
                if kind == "write" and nbytes:
                    pts.extend((s, k) for k in range(0, nbytes + 1))
                else:
                    pts.append((s, None))
            pts.append((len(steps) + 1, None))  # beyond the last step: no crash fires (control)
            total_points += len(pts)
            info.append({"n_approx": n, "bufsize": bufsize, "writer_steps": len(steps),
                         "bytes_written": sum(b or 0 for k, b in steps if k == "write"), "crash_points": len(pts)})
            for i in range(0, len(pts), 200):
                jobs.append((n, bufsize, pts[i:i + 200]))
        futs = [pool.submit(_enum_job, j) for j in jobs]
        viol, stats, outcomes = [], {}, {}
        for f in futs:
            r = f.result(timeout=900)
            if r["error"]:
                raise HarnessError("enumeration: " + r["error"])
            viol.extend(r["violations"])
            for k, v in r["stats"].items():
                stats[k] = stats.get(k, 0) + v
            for k, v in r["outcomes"].items():
                outcomes[k] = outcomes.get(k, 0) + v
        self.check_no_leak()
        # one representative per (cls, site)
        seen, keep = set(), []
        for v in viol:
            if (v["cls"], v["site"]) not in seen:
                seen.add((v["cls"], v["site"]))
                v["count_in_enumeration"] = sum(1 for x in viol if (x["cls"], x["site"]) == (v["cls"], v["site"]))
                keep.append(v)
        return [{
            "name": "crash_point_enumeration",
            "evaluations": total_points,
            "distinct_nontrivial": total_points - len(configs),
            "exhaustive_for": info,
            "exhaustive": True,
            "stats": stats,
            "later_run_found": outcomes,
            "violations": keep,
            "samples": [{"config": info[0], "first_points": "every (scheduling step, byte offset) of the writer"}],
        }]

    def writer_steps(self, n, bufsize):
        spec = {"n": n, "bufsize": bufsize, "read_chunk": 1 << 30, "style": "fifo", "total_tips": 6,
                "distr": "lognorm", "actors": [{"die_at": None, "torn_frac": 0.0}]}
        r = self.run_scenario(spec, Tape(values=[]), record_steps=True)
        if r["violations"]:
            # fault-free single writer already fails: surface through the normal path too
            pass
        return list(r["procs"][0].step_log)

    def enum_spec(self, n, bufsize, s, k):
        return {"n": n, "bufsize": bufsize, "read_chunk": 1 << 30, "style": "fifo", "total_tips": 6,
                "distr": "lognorm", "actors": [{"die_at": s, "torn_frac": 0.0, "torn_k": k}]}

    def replay_part(self, doc):
        v = doc["violation"]
        spec = v["replay_args"]
        r = self.run_scenario(spec, Tape(values=[]))
        hit = [x for x in r["violations"] if x["cls"] == v["cls"] and x["site"] == v["site"]]
        for ln in r["trace"][-40:]:
            print("  ", ln)
        return bool(hit), (hit[0]["detail"] if hit else f"violations now: {r['violations']}")


def _enum_job(job):
    from ..runner import _ENGINE as eng

    n, bufsize, pts = job
    out = {"violations": [], "stats": {}, "outcomes": {}, "error": None}
    try:
        for s, k in pts:
            spec = eng.enum_spec(n, bufsize, s, k)
            r = eng.run_scenario(spec, Tape(values=[]))
            for key, val in r["stats"].items():
                if key.startswith(("fault.", "probe.later_")):
                    out["stats"][key] = out["stats"].get(key, 0) + val
                if key.startswith("probe.later_"):
                    out["outcomes"][key[6:]] = out["outcomes"].get(key[6:], 0) + val
            for v in r["violations"]:
                v = dict(v)
                v["replay_args"] = spec
                out["violations"].append(v)
    except BaseException as e:  # noqa: BLE001
        out["error"] = f"{type(e).__name__}: {e}\n{traceback.format_exc()}"
    return out
