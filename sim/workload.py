"""Tape-driven generators of small tree sequences (the workload of the ep,
hist and pipe engines).  Everything is a deterministic function of the tape:
msprime/tskit are seeded from tape values and are themselves deterministic
across interpreters and hash seeds.

Generators are parameterised by *scaled* quantities (rho = total recombination
events expected, theta = total mutations expected) and reject anything above
MAX_EDGES / MAX_MUTS (a first experiment that drew r, L and N independently
produced tree sequences with thousands of trees).
"""

import numpy as np

MAX_EDGES = 150
MAX_MUTS = 5000


def _imports():
    import msprime
    import tskit

    return msprime, tskit


def collapse_nodes(ts, nodes):
    """Remove internal *nodes*, attaching their children to their parents over the shared
    intervals (creates polytomies).  Mutations above a removed node are dropped."""
    _, tskit = _imports()
    nodes = set(int(x) for x in nodes)
    t = ts.dump_tables()
    E = [(e.left, e.right, e.parent, e.child) for e in ts.edges()]
    for x in sorted(nodes, key=lambda u: ts.nodes_time[u]):
        up = [e for e in E if e[3] == x]
        down = [e for e in E if e[2] == x]
        rest = [e for e in E if e[2] != x and e[3] != x]
        for (l1, r1, p, _) in up:
            for (l2, r2, _, c) in down:
                lo, hi = max(l1, l2), min(r1, r2)
                if lo < hi:
                    rest.append((lo, hi, p, c))
        E = rest
    t.edges.clear()
    for (lo, hi, p, c) in E:
        t.edges.add_row(lo, hi, p, c)
    keep = np.array([m.node not in nodes for m in ts.mutations()], dtype=bool)
    if ts.num_mutations:
        # parents may dangle once rows are dropped: clear first, recompute below
        t.mutations.parent = np.full(t.mutations.num_rows, tskit.NULL, dtype=np.int32)
        t.mutations.keep_rows(keep)
    t.sort()
    t.simplify()  # drops the isolated nodes, squashes edges
    t.build_index()
    t.compute_mutation_parents()
    t.compute_mutation_times()
    return t.tree_sequence()


def scale_times(ts, s):
    t = ts.dump_tables()
    t.nodes.time = t.nodes.time * s
    if t.mutations.num_rows:
        mt = t.mutations.time
        t.mutations.time = np.where(np.isnan(mt), mt, mt * s)
    return t.tree_sequence()


def gen_msprime(tape, *, max_samples=8, allow_ancient=True, allow_poly=True, allow_internal_samples=True,
                need_mutations=True, diploid=None, max_theta=60.0, max_rho=4.0):
    """Returns (ts, mutation_rate, info)."""
    msprime, tskit = _imports()
    for attempt in range(20):
        ploidy = 2 if (diploid if diploid is not None else tape.chance("diploid", 0.3)) else 1
        if ploidy == 2:
            n_ind = 1 + tape.choose("n_ind", max(1, max_samples // 2))
            n = n_ind
        else:
            n = 2 + tape.choose("n_samples", max_samples - 1)
        rho = tape.pick("rho", [0.0, 0.0, 0.5, 1.0, 2.0, max_rho])
        theta = tape.pick("theta", [1.0, 5.0, 20.0, max_theta, 0.3])
        L = tape.pick("L", [1000, 10000, 100])
        seed = 1 + tape.choose("msprime_seed", 2**31 - 2)
        samples = [msprime.SampleSet(n, time=0, ploidy=ploidy)]
        ancient = allow_ancient and tape.chance("ancient", 0.2)
        if ancient:
            k = 1 + tape.choose("n_ancient", 2)
            samples.append(msprime.SampleSet(k, time=tape.pick("t_ancient", [0.5, 0.05, 2.0]), ploidy=ploidy))
        ts = msprime.sim_ancestry(samples=samples, population_size=1.0, sequence_length=L,
                                  recombination_rate=rho / L, random_seed=seed)
        if ts.num_edges > MAX_EDGES:
            continue
        mu = theta / L / 4.0
        heavy = tape.chance("heavy", 0.1)
        if heavy:
            mu *= tape.pick("heavy_factor", [10.0, 50.0])
        ts = msprime.sim_mutations(ts, rate=mu, random_seed=seed + 1)
        if ts.num_mutations > MAX_MUTS:
            continue
        info = {"kind": "msprime", "n": n, "ploidy": ploidy, "rho": rho, "theta": theta, "L": L, "seed": seed,
                "ancient": bool(ancient), "heavy": bool(heavy)}
        if allow_poly and ts.num_nodes - ts.num_samples > 2 and tape.chance("poly", 0.3):
            internal = [u for u in range(ts.num_nodes) if not ts.node(u).is_sample()]
            roots = set()
            for tree in ts.trees():
                roots.update(tree.roots)
            cand = [u for u in internal if u not in roots]
            if cand:
                k = 1 + tape.choose("n_collapse", min(3, len(cand)))
                pick = tape.shuffle("collapse", cand)[:k]
                ts = collapse_nodes(ts, pick)
                info["collapsed"] = len(pick)
        if allow_internal_samples and tape.chance("internal_sample", 0.15):
            internal = [u for u in range(ts.num_nodes) if not ts.node(u).is_sample()]
            if internal:
                u = tape.pick("which_internal", internal)
                t = ts.dump_tables()
                fl = t.nodes.flags
                fl[u] = tskit.NODE_IS_SAMPLE
                t.nodes.flags = fl
                ts = t.tree_sequence()
                info["internal_sample"] = int(u)
        if need_mutations and ts.num_mutations == 0:
            continue
        if ts.num_edges == 0:
            continue
        s = tape.pick("time_scale", [1.0, 1e4, 1e-3, 1e2, 30.0])
        if s != 1.0:
            ts = scale_times(ts, s)
            mu = mu / s
        info["scale"] = s
        info["edges"] = ts.num_edges
        info["muts"] = ts.num_mutations
        info["trees"] = ts.num_trees
        return ts, mu, info
    # fall back to the simplest possible input
    ts = msprime.sim_ancestry(3, ploidy=1, population_size=1.0, sequence_length=100, random_seed=7)
    ts = msprime.sim_mutations(ts, rate=0.05, random_seed=8)
    return ts, 0.05, {"kind": "fallback"}


def gen_star(tape):
    """Star-like input: every edge joins a non-sample parent to a sample at time zero.
    Returns (ts, mutation_rate, expected) where expected[parent] = (sum_y, sum_span) computed
    independently of tsdate from the tables built here."""
    _, tskit = _imports()
    n_samples = 2 + tape.choose("star_samples", 7)
    n_trees = 1 + tape.choose("star_trees", 6)
    n_parents = 1 + tape.choose("star_parents", min(4, n_trees * 2))
    L = float(tape.pick("star_L", [1000, 100, 1e5]))
    breaks = [0.0]
    for i in range(n_trees - 1):
        breaks.append(breaks[-1] + L / n_trees * tape.uniform("brk", 0.3, 1.0))
    breaks.append(max(L, breaks[-1] + 1.0))
    breaks = [float(int(b)) for b in breaks]
    # ensure strictly increasing integer breakpoints
    for i in range(1, len(breaks)):
        if breaks[i] <= breaks[i - 1]:
            breaks[i] = breaks[i - 1] + 1.0
    t = tskit.TableCollection(sequence_length=breaks[-1])
    for _ in range(n_samples):
        t.nodes.add_row(flags=tskit.NODE_IS_SAMPLE, time=0.0)
    parents = [n_samples + j for j in range(n_parents)]  # provisional ids; unused ones are dropped below
    heavy = tape.chance("star_heavy", 0.25)
    ymax = tape.pick("star_ymax", [3, 12, 60, 300]) if heavy else tape.pick("star_ymax_light", [0, 1, 3, 8])
    edges = []
    gaps = n_trees >= 2 and tape.chance("star_gaps", 0.3)
    isolated = []  # (lo, hi, sample): intervals in which the sample is a root
    for k in range(n_trees):
        lo, hi = breaks[k], breaks[k + 1]
        # partition the samples among 1..n_parents parents; every used parent gets >= 2 children
        groups = 1 + tape.choose("groups", min(n_parents, n_samples // 2))
        order = tape.shuffle("perm", list(range(n_samples)))
        use = tape.shuffle("which_parents", parents)[:groups]
        assign = {}
        for gi, p in enumerate(use):
            assign[order[2 * gi]] = p
            assign[order[2 * gi + 1]] = p
        for s in order[2 * groups:]:
            # with gaps enabled, some samples stay isolated (roots) in this tree - missing data; a breakpoint may
            # then only remove edges, and a sample may be re-attached after a gap
            if gaps and tape.chance("isolated_here", 0.3):
                isolated.append((lo, hi, s))
                continue
            assign[s] = use[tape.choose("assign", groups)]
        for s, p in sorted(assign.items()):
            edges.append((lo, hi, p, s))
    # every sample must be attached somewhere, otherwise the input is rejected as containing disconnected nodes
    attached = {e[3] for e in edges}
    for (lo, hi, s) in list(isolated):
        if s not in attached:
            isolated.remove((lo, hi, s))
            p0 = [e[2] for e in edges if e[0] == lo]
            edges.append((lo, hi, p0[0] if p0 else parents[0], s))
            attached.add(s)
    # squash adjacent edges of the same (parent, child)
    edges.sort(key=lambda e: (e[2], e[3], e[0]))
    sq = []
    for e in edges:
        if sq and sq[-1][2] == e[2] and sq[-1][3] == e[3] and sq[-1][1] == e[0]:
            sq[-1] = (sq[-1][0], e[1], e[2], e[3])
        else:
            sq.append(e)
    used_parents = sorted({e[2] for e in sq})
    remap = {}
    for j, p in enumerate(used_parents):
        remap[p] = t.nodes.add_row(flags=0, time=1.0 + j)
    sq = [(lo, hi, remap[p], s) for (lo, hi, p, s) in sq]
    parents = [remap[p] for p in used_parents]
    for e in sq:
        t.edges.add_row(*e)
    # mutations: y per edge, each at its own site inside the edge interval (positions may repeat across edges,
    # so several mutations can share a site)
    expected = {p: [0, 0.0] for p in parents}
    site_of = {}
    muts = []
    for (lo, hi, p, s) in sq:
        y = tape.choose("y", ymax + 1)
        expected[p][0] += y
        expected[p][1] += hi - lo
        width = int(hi - lo)
        for m in range(y):
            pos = lo + (m % width)
            muts.append((pos, s))
    for (lo, hi, smp) in isolated:
        if tape.chance("mut_on_isolated_sample", 0.5):
            muts.append((lo + tape.choose("iso_pos", int(hi - lo)), smp))  # above a sample that is a root here: no edge
    n_root_muts = tape.choose("root_muts", 3)
    for _ in range(n_root_muts):
        p = tape.pick("root_mut_parent", parents)
        spans = [(lo, hi) for (lo, hi, pp, s) in sq if pp == p]
        if spans:
            muts.append((spans[0][0], p))  # mutation above a root: no edge
    if not muts:
        lo, hi, p, s = sq[0]
        muts.append((lo, s))
        expected[p][0] += 1
    for pos, node in sorted(muts):
        if pos not in site_of:
            site_of[pos] = t.sites.add_row(position=pos, ancestral_state="0")
    for pos, node in sorted(muts, key=lambda x: (x[0], -t.nodes.time[x[1]])):
        t.mutations.add_row(site=site_of[pos], node=node, derived_state="1", time=tskit.UNKNOWN_TIME)
    t.sort()
    t.build_index()
    t.compute_mutation_parents()
    ts = t.tree_sequence()
    mu = tape.pick("star_mu", [1e-3, 1.0, 1e-8, 17.0, 1e-12, 100.0])
    used = {p: tuple(v) for p, v in expected.items() if v[1] > 0}
    return ts, mu, used, {"kind": "star", "samples": n_samples, "trees": n_trees, "parents": len(used),
                          "edges": ts.num_edges, "muts": ts.num_mutations, "ymax": ymax,
                          "isolated_intervals": len(isolated)}


def warm_up():
    """Run every public method once on a tiny input in the parent process, so that lazily compiled numba
    pieces (jitclass constructors, object-mode wrappers) are compiled before the workers are forked."""
    import msprime

    import tsdate

    ts = msprime.sim_ancestry(3, ploidy=2, population_size=1.0, sequence_length=100, random_seed=11)
    ts = msprime.sim_mutations(ts, rate=0.05, random_seed=12)
    for phased in (True, False):
        tsdate.variational_gamma(ts, mutation_rate=0.05, max_iterations=2, singletons_phased=phased)
    for method in ("inside_outside", "maximization"):
        for space in ("linear", "logarithmic"):
            tsdate.date(ts, mutation_rate=0.05, method=method, population_size=1.0, probability_space=space)
    tsdate.preprocess_ts(ts)
