"""Virtual clock: a module-like object that replaces the ``time`` attribute of
the modules that read the wall clock (tsdate.core, tsdate.util,
tsdate.variational, tskit.provenance).  Every read returns the simulated time
and then advances it by the run's tick, so elapsed times are whatever the tape
says and never depend on the machine."""

import time as _real_time


class VClock:
    def __init__(self, start=1_700_000_000.0, tick=0.001):
        self.now = float(start)
        self.tick = float(tick)
        self.reads = 0

    # the functions tsdate / tskit.provenance use
    def time(self):
        t = self.now
        self.now += self.tick
        self.reads += 1
        return t

    def monotonic(self):
        return self.time()

    def perf_counter(self):
        return self.time()

    def process_time(self):
        return self.time()

    def time_ns(self):
        return int(self.time() * 1e9)

    def sleep(self, secs):
        self.now += max(0.0, float(secs))

    def advance(self, dt):
        self.now += float(dt)

    def __getattr__(self, name):
        return getattr(_real_time, name)


def install(clock, modules):
    """Replace ``module.time`` by *clock* in each module that has it. Returns undo()."""
    saved = []
    for m in modules:
        if getattr(m, "time", None) is _real_time or isinstance(getattr(m, "time", None), VClock):
            saved.append((m, m.time))
            m.time = clock

    def undo():
        for m, t in saved:
            m.time = t

    return undo, [m.__name__ for m, _ in saved]
