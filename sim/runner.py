"""Batch driver shared by all engines.

* splits a batch of N runs (sub-seeds derived from VERIF_SEED) over forked
  worker processes;
* determinism self-test: the first m sub-seeds are run again in a different
  worker and once more in a fresh interpreter under another PYTHONHASHSEED; the
  event-log digests must agree, otherwise exit 2;
* violations are grouped by (class, site), matched against
  /verif/known_findings.json, the rest are minimised, written as replay files,
  re-verified in a fresh interpreter and printed as
  ``VIOLATION property=<id> replay=<path>``;
* writes /verif/evidence/<id>.json.

Exit codes: 0 held, 1 violation, 2 harness error.
"""

import collections
import concurrent.futures as cf
import faulthandler
import json
import multiprocessing
import os
import subprocess
import sys
import time
import traceback

from . import tape as tapemod

VERIF_DIR = os.path.dirname(os.path.dirname(os.path.abspath(__file__)))
_OUT = os.environ.get("VERIF_OUT_DIR") or VERIF_DIR  # sensitivity self-tests write elsewhere
REPLAY_DIR = os.path.join(_OUT, "replays")
EVIDENCE_DIR = os.path.join(_OUT, "evidence")
KNOWN_FILE = os.path.join(VERIF_DIR, "known_findings.json")
CHECK = os.path.join(VERIF_DIR, "check")


class HarnessError(Exception):
    """The simulator itself is broken / a seam no longer matches the source.
    Never reported as a violation and never as success."""


def harness_exit(msg):
    sys.stdout.flush()
    print(f"HARNESS-ERROR {msg}", flush=True)
    sys.exit(2)


# ----------------------------------------------------------------------------
# engine protocol
# ----------------------------------------------------------------------------
class Engine:
    prop = None  # property id
    name = None  # engine name
    level = "exploration"
    jit = True  # needs compiled kernels
    chunk = 50  # runs per work item
    selftest_m = {"quick": 6, "thorough": 24}
    run_timeout = 600  # seconds per chunk before a worker is declared hung

    def prepare(self, tier):
        """Heavy imports; runs once in the parent before fork."""

    def n_runs(self, tier):
        raise NotImplementedError

    def run(self, tape):
        """One simulated run. Returns a result dict (see ``blank_result``)."""
        raise NotImplementedError

    def extra_parts(self, tier, pool, seed):
        """Optional additional parts (enumeration, restart sweep...).  Returns a
        list of part dicts ``{name, evaluations, stats, violations, info}``."""
        return []

    def components(self):
        return {"real": [], "stubbed": []}

    def rule(self):
        return ""

    def assumptions(self):
        return []


def blank_result():
    return {
        "violations": [],  # [{cls, site, detail}]
        "digest": "",
        "stats": collections.Counter(),
        "events": 0,
        "sim_time": 0.0,
        "states": [],  # hashable keys of distinct (post-fault) states reached
        "nontrivial": False,
        "trace": [],
        "aborted": None,
    }


def violation(cls, site, detail):
    return {"cls": cls, "site": site, "detail": str(detail)[:2000]}


# ----------------------------------------------------------------------------
# worker side
# ----------------------------------------------------------------------------
_ENGINE = None


def _set_engine(e):
    global _ENGINE
    _ENGINE = e


def run_one(engine, seed=None, values=None):
    tp = tapemod.Tape(seed=seed, values=values)
    res = engine.run(tp)
    res["tape"] = tp.values
    return res


def _work(args):
    """Run a chunk of sub-seeds; return an aggregate."""
    prop, verif_seed, ks, want_digests, keep_samples = args
    eng = _ENGINE
    agg = {
        "n": 0,
        "stats": collections.Counter(),
        "events": 0,
        "sim_time": 0.0,
        "digests": set(),
        "states": set(),
        "nontrivial": set(),
        "violations": [],
        "nviol": 0,
        "per_k": {},
        "samples": [],
        "aborted": collections.Counter(),
        "known_hits": collections.Counter(),
        "error": None,
        "cpu_s": 0.0,
    }
    known = load_known(prop)
    t0 = time.process_time()
    try:
        for k in ks:
            # watchdog per RUN (not per chunk): a hung run kills the worker, which the parent reports as a harness error
            faulthandler.dump_traceback_later(eng.run_timeout, exit=True)
            _note_current_run(prop, verif_seed, k)
            ss = tapemod.sub_seed(verif_seed, prop, k)
            res = run_one(eng, seed=ss)
            agg["n"] += 1
            agg["stats"].update(res["stats"])
            agg["events"] += res["events"]
            agg["sim_time"] += res["sim_time"]
            d = int(res["digest"][:15], 16) if res["digest"] else 0
            agg["digests"].add(d)
            for s in res["states"]:
                agg["states"].add(hash_key(s))
            if res["nontrivial"]:
                agg["nontrivial"].add(d)
            if res["aborted"]:
                agg["aborted"][res["aborted"]] += 1
            if k in want_digests:
                agg["per_k"][k] = res["digest"]
            if res["violations"] and known:
                # known findings are counted here so that they can never crowd out an unknown violation
                rest = []
                for v in res["violations"]:
                    e = match_known(v, known)
                    if e is not None:
                        agg["known_hits"][e["what"]] += 1
                    else:
                        rest.append(v)
                res["violations"] = rest
            if res["violations"]:
                agg["nviol"] += 1
                if len(agg["violations"]) < 40:
                    agg["violations"].append(
                        {"k": k, "sub_seed": ss, "tape": res["tape"],
                         "violations": res["violations"], "trace": res["trace"][-60:]}
                    )
            if len(agg["samples"]) < keep_samples and res["nontrivial"]:
                agg["samples"].append({"k": k, "sub_seed": ss, "trace": res["trace"][:40],
                                       "tape_len": len(res["tape"])})
    except BaseException as e:  # noqa: BLE001 - anything escaping an engine is a harness error
        agg["error"] = f"k={k}: {type(e).__name__}: {e}\n{traceback.format_exc()}"
    faulthandler.cancel_dump_traceback_later()
    agg["cpu_s"] = time.process_time() - t0
    return agg


_STATUS_FD = [None]


def _note_current_run(prop, verif_seed, k):
    """One pwrite per run into replays/.status-<pid>: if this worker is killed by its watchdog the parent can say which
    run it was in."""
    try:
        if _STATUS_FD[0] is None:
            os.makedirs(REPLAY_DIR, exist_ok=True)
            _STATUS_FD[0] = os.open(os.path.join(REPLAY_DIR, f".status-{os.getpid()}"), os.O_CREAT | os.O_WRONLY, 0o644)
        os.pwrite(_STATUS_FD[0], f"{prop} VERIF_SEED={verif_seed} k={k}        \n".encode(), 0)
    except OSError:
        pass


def _read_statuses():
    out = []
    try:
        for name in sorted(os.listdir(REPLAY_DIR)):
            if name.startswith(".status-"):
                with open(os.path.join(REPLAY_DIR, name)) as f:
                    out.append(f"pid {name[8:]}: {f.read().strip()}")
    except OSError:
        pass
    return out


def _clear_statuses():
    try:
        for name in os.listdir(REPLAY_DIR):
            if name.startswith(".status-"):
                os.remove(os.path.join(REPLAY_DIR, name))
    except OSError:
        pass


def _pin(counter):
    """Pin each worker to one CPU: baton passing between the threads of a simulated world is several times
    faster when both ends share a core (no cross-core futex wake-ups)."""
    try:
        cpus = sorted(os.sched_getaffinity(0))
        with counter.get_lock():
            i = counter.value
            counter.value += 1
        os.sched_setaffinity(0, {cpus[i % len(cpus)]})
    except (AttributeError, OSError):
        pass


def hash_key(s):
    import hashlib

    return int(hashlib.sha256(repr(s).encode()).hexdigest()[:15], 16)


# ----------------------------------------------------------------------------
# known findings
# ----------------------------------------------------------------------------
def load_known(prop):
    if not os.path.exists(KNOWN_FILE):
        return []
    with open(KNOWN_FILE) as f:
        data = json.load(f)
    return [e for e in data.get("findings", []) if e.get("property") == prop and e.get("kind") == "known"]


def match_known(v, known):
    for e in known:
        key = e.get("key", {})
        if all(v.get(f) == val for f, val in key.items()):
            return e
    return None


# ----------------------------------------------------------------------------
# main entry
# ----------------------------------------------------------------------------
def fresh_env(hashseed):
    env = dict(os.environ)
    env["PYTHONHASHSEED"] = str(hashseed)
    env["VERIF_NO_REEXEC"] = "1"
    return env


def main_check(engine, tier, verif_seed, wall_cap=None, workers=None):
    t_start = time.time()
    prop = engine.prop
    os.makedirs(REPLAY_DIR, exist_ok=True)
    os.makedirs(EVIDENCE_DIR, exist_ok=True)
    if workers is None:
        workers = int(os.environ.get("VERIF_WORKERS", "0")) or min(16, os.cpu_count() or 1)
    print(f"[{prop}] engine={engine.name} tier={tier} VERIF_SEED={verif_seed} workers={workers} "
          f"repo={os.environ.get('TSDATE_REPO', '/repo')}", flush=True)

    # fresh-interpreter digests start first: they pay their own import cost concurrently
    m = engine.selftest_m.get(tier, 6)
    n_total = int(os.environ.get("VERIF_RUNS") or 0) or engine.n_runs(tier)
    m = min(m, n_total)
    fresh = None
    if m > 0 and not os.environ.get("VERIF_SKIP_FRESH") and not getattr(engine, "owns_fresh_check", False):
        fresh = subprocess.Popen(
            [sys.executable, os.path.join(VERIF_DIR, "sim", "main.py"), prop, "--digests", str(m),
             "--tier", tier],
            env=fresh_env(4242 + verif_seed % 1000), stdout=subprocess.PIPE, stderr=subprocess.PIPE, text=True,
        )

    t0 = time.time()
    try:
        engine.prepare(tier)
    except HarnessError as e:
        harness_exit(f"{prop}: prepare failed: {e}")
    t_prepare = time.time() - t0
    _set_engine(engine)

    _clear_statuses()
    ctx = multiprocessing.get_context("fork")
    counter = ctx.Value("i", 0)
    pool = cf.ProcessPoolExecutor(max_workers=workers, mp_context=ctx, initializer=_pin, initargs=(counter,))

    chunk = engine.chunk
    want = set(range(m))
    work = []
    for lo in range(0, n_total, chunk):
        ks = list(range(lo, min(n_total, lo + chunk)))
        work.append((prop, verif_seed, ks, want, 1))
    # self-test second pass of the first m seeds (lands on another worker/ordering)
    selftest_work = (prop, verif_seed, list(reversed(range(m))), want, 0) if m else None

    total = {
        "n": 0, "stats": collections.Counter(), "events": 0, "sim_time": 0.0, "digests": set(),
        "states": set(), "nontrivial": set(), "violations": [], "nviol": 0, "per_k": {},
        "samples": [], "aborted": collections.Counter(), "cpu_s": 0.0, "known_hits": collections.Counter(),
    }
    truncated = False
    futs = []
    t_batch = time.time()
    try:
        it = iter(work)
        pending = set()
        # keep at most 3*workers in flight so a wall cap can stop early
        def submit_more():
            nonlocal truncated
            while len(pending) < workers * 3:
                if wall_cap is not None and time.time() - t_start > wall_cap:
                    truncated = True
                    return
                try:
                    w = next(it)
                except StopIteration:
                    return
                pending.add(pool.submit(_work, w))
        submit_more()
        st_future = pool.submit(_work, selftest_work) if selftest_work else None
        while pending:
            # a hung run is killed by its own per-run watchdog (-> BrokenProcessPool); this is only a last resort
            done, _ = cf.wait(pending, timeout=7200, return_when=cf.FIRST_COMPLETED)
            if not done:
                harness_exit(f"{prop}: workers made no progress for 7200s")
            for f in done:
                pending.discard(f)
                agg = f.result()
                if agg["error"]:
                    harness_exit(f"{prop}: engine raised: {agg['error']}")
                total["n"] += agg["n"]
                total["stats"].update(agg["stats"])
                total["events"] += agg["events"]
                total["sim_time"] += agg["sim_time"]
                total["digests"] |= agg["digests"]
                total["states"] |= agg["states"]
                total["nontrivial"] |= agg["nontrivial"]
                total["nviol"] += agg["nviol"]
                total["aborted"].update(agg["aborted"])
                total["known_hits"].update(agg["known_hits"])
                total["cpu_s"] += agg["cpu_s"]
                if len(total["violations"]) < 400:
                    total["violations"].extend(agg["violations"])
                total["per_k"].update(agg["per_k"])
                if len(total["samples"]) < 3:
                    total["samples"].extend(agg["samples"])
            submit_more()
        st = st_future.result(timeout=engine.run_timeout + 60) if st_future else None
    except cf.process.BrokenProcessPool as e:
        harness_exit(f"{prop}: worker died ({e}); see stderr for faulthandler output; runs in progress per worker: "
                     f"{_read_statuses()}")
    except cf.TimeoutError:
        harness_exit(f"{prop}: worker timeout")
    batch_wall = time.time() - t_batch

    # ---- determinism self-test -------------------------------------------
    det = {"seeds": m, "second_worker_mismatch": 0, "fresh_interpreter_mismatch": 0, "fresh_checked": 0}
    if st is not None:
        if st["error"]:
            harness_exit(f"{prop}: engine raised in self-test: {st['error']}")
        for k in range(m):
            if k in total["per_k"] and st["per_k"].get(k) != total["per_k"][k]:
                det["second_worker_mismatch"] += 1
    if fresh is not None:
        try:
            out, err = fresh.communicate(timeout=1800)
        except subprocess.TimeoutExpired:
            fresh.kill()
            harness_exit(f"{prop}: fresh-interpreter determinism run timed out")
        if fresh.returncode != 0:
            harness_exit(f"{prop}: fresh-interpreter determinism run failed rc={fresh.returncode}: {err[-2000:]}")
        line = [ln for ln in out.splitlines() if ln.startswith("DIGESTS ")]
        if not line:
            harness_exit(f"{prop}: fresh-interpreter run printed no digests: {out[-500:]} {err[-500:]}")
        fd = json.loads(line[-1][len("DIGESTS "):])
        for k in range(m):
            if k in total["per_k"]:
                det["fresh_checked"] += 1
                if fd.get(str(k)) != total["per_k"][k]:
                    det["fresh_interpreter_mismatch"] += 1
    # thorough: the same seeds again at other worker counts (1 and 4 unpinned-order pools)
    if tier == "thorough" and m > 0 and not os.environ.get("VERIF_SKIP_FRESH"):
        det["other_worker_counts"] = {}
        for wc in (1, 4):
            c2 = ctx.Value("i", 0)
            with cf.ProcessPoolExecutor(max_workers=wc, mp_context=ctx, initializer=_pin, initargs=(c2,)) as p2:
                ks = list(range(m))
                parts_ = [ks[i::wc] for i in range(wc)]
                futs2 = [p2.submit(_work, (prop, verif_seed, part, want, 0)) for part in parts_ if part]
                mism = 0
                for f in futs2:
                    a2 = f.result(timeout=engine.run_timeout + 60)
                    if a2["error"]:
                        harness_exit(f"{prop}: engine raised in self-test at {wc} workers: {a2['error']}")
                    mism += sum(1 for k, d in a2["per_k"].items() if total["per_k"].get(k) != d)
            det["other_worker_counts"][str(wc)] = {"checked": m, "mismatch": mism}
            if mism:
                harness_exit(f"{prop}: determinism self-test failed at {wc} workers: {det}")
    if det["second_worker_mismatch"] or det["fresh_interpreter_mismatch"]:
        harness_exit(f"{prop}: determinism self-test failed: {det}")

    # ---- extra parts ------------------------------------------------------
    parts = []
    engine.batch_per_k = dict(total["per_k"])
    try:
        parts = engine.extra_parts(tier, pool, verif_seed) or []
    except HarnessError as e:
        harness_exit(f"{prop}: extra part failed: {e}")
    except cf.process.BrokenProcessPool as e:
        harness_exit(f"{prop}: worker died in extra part ({e})")
    pool.shutdown(wait=True, cancel_futures=True)

    # ---- violations ---------------------------------------------------------
    known = load_known(prop)
    groups = collections.OrderedDict()
    known_hits = collections.Counter(total["known_hits"])
    for rec in sorted(total["violations"], key=lambda r: (len(r["tape"]), r["k"])):
        for v in rec["violations"]:
            e = match_known(v, known)
            if e is not None:
                known_hits[e["what"]] += 1
                continue
            groups.setdefault((v["cls"], v["site"]), []).append((rec, v))
    part_viol = []
    for p in parts:
        for v in p.get("violations", []):
            e = match_known(v, known)
            if e is not None:
                known_hits[e["what"]] += 1
            else:
                part_viol.append((p["name"], v))

    reported = []
    seen_min = set()
    max_report = int(os.environ.get("VERIF_MAX_REPORT") or 3)
    for (cls, site), lst in list(groups.items())[:2 * max_report]:
        if len(reported) >= max_report:
            break
        rec, v = lst[0]
        out = report_violation(engine, rec, v, len(lst), seen_min)
        if out is None:
            continue  # minimised to a (class, site) that has been reported already
        path, mcls, msite = out
        reported.append({"cls": mcls, "site": msite, "count": len(lst), "replay": path, "detail": v["detail"][:500]})
    for pname, v in part_viol[:max_report]:
        path = v.get("replay")
        if not path:
            path = os.path.join(REPLAY_DIR, f"{prop}-{pname}-{hash_key(v) % 10**10}.json")
            with open(path, "w") as f:
                json.dump({"property": prop, "engine": engine.name, "part": pname, "violation": v,
                           "replay_args": v.get("replay_args")}, f, indent=1)
        print(f"[{prop}] part={pname} class={v['cls']} site={v['site']}: {v['detail'][:600]}")
        print(f"VIOLATION property={prop} replay={path}", flush=True)
        reported.append({"cls": v["cls"], "site": v["site"], "part": pname, "replay": path, "detail": v["detail"][:500]})
    for what, cnt in known_hits.items():
        print(f"KNOWN-FINDING: property={prop} {what} (seen {cnt}x in this run)")

    # ---- evidence -----------------------------------------------------------
    wall = time.time() - t_start
    n = total["n"]
    evals = n + sum(p.get("evaluations", 0) for p in parts)
    faults = {k: v for k, v in sorted(total["stats"].items()) if k.startswith("fault.")}
    probes = {k: v for k, v in sorted(total["stats"].items()) if k.startswith("probe.")}
    other = {k: v for k, v in sorted(total["stats"].items()) if not k.startswith(("fault.", "probe."))}
    distinct_nt = len(total["nontrivial"]) + sum(p.get("distinct_nontrivial", 0) for p in parts)
    ev = {
        "property_id": prop,
        "tier": tier,
        "seed": int(verif_seed),
        "level": engine.level,
        "wall_s": round(wall, 2),
        "violations": len(reported),
        "coverage": {
            "evaluations": int(evals),
            "distinct_nontrivial": int(distinct_nt),
            "rule": engine.rule(),
            "samples": total["samples"][:3] + [s for p in parts for s in p.get("samples", [])][:3],
            "exhaustive": False,
            "simulated_runs": n,
            "runs_per_hour": int(n / batch_wall * 3600) if batch_wall > 0 else 0,
            "seeds": {"VERIF_SEED": int(verif_seed), "sub_seed_rule": "sha256(VERIF_SEED/property/k)[:8], k=0..runs-1",
                      "first_sub_seeds": [tapemod.sub_seed(verif_seed, prop, k) for k in range(min(3, n_total))]},
            "simulated_events": int(total["events"]),
            "simulated_seconds": round(total["sim_time"], 3),
            "faults_fired": faults,
            "reach_probes": probes,
            "counters": other,
            "aborted_runs": dict(total["aborted"]),
            "distinct_schedule_digests": len(total["digests"]),
            "distinct_states": len(total["states"]),
            "determinism_selftest": det,
            "components": engine.components(),
            "parts": [{k: v for k, v in p.items() if k not in ("violations", "samples")} for p in parts],
            "known_findings_seen": dict(known_hits),
            "violations_total_runs": total["nviol"],
            "violation_groups": reported,
            "truncated_by_wall_cap": truncated,
            "workers": workers,
            "prepare_s": round(t_prepare, 1),
            "batch_wall_s": round(batch_wall, 1),
            "worker_cpu_s": round(total["cpu_s"], 1),
        },
        "assumptions": engine.assumptions(),
    }
    with open(os.path.join(EVIDENCE_DIR, f"{prop}.json"), "w") as f:
        json.dump(ev, f, indent=1, default=_json_default)
    print(f"[{prop}] runs={n} ({ev['coverage']['runs_per_hour']}/h) extra_evals={evals - n} events={total['events']} "
          f"digests={len(total['digests'])} states={len(total['states'])} nontrivial={distinct_nt} "
          f"faults={faults} aborted={dict(total['aborted'])} wall={wall:.1f}s", flush=True)
    if probes:
        print(f"[{prop}] probes={probes}")
    zero = [k for k in getattr(engine, "expected_probes", lambda t: [])(tier) if not total["stats"].get(k)]
    if zero:
        print(f"[{prop}] NOTE probes stuck at zero: {zero}")
    _clear_statuses()
    if reported:
        sys.exit(1)
    fatal = {k: total["stats"][k] for k in getattr(engine, "fatal_stats", []) if total["stats"].get(k)}
    if fatal:
        harness_exit(f"{prop}: the simulator no longer refines the real code ({fatal}); nothing it reports is trusted")
    print(f"[{prop}] OK: property held on everything explored", flush=True)
    sys.exit(0)


def _json_default(o):
    try:
        import numpy as np

        if isinstance(o, (np.integer,)):
            return int(o)
        if isinstance(o, (np.floating,)):
            return float(o)
        if isinstance(o, np.ndarray):
            return o.tolist()
    except ImportError:
        pass
    if isinstance(o, (set, frozenset)):
        return sorted(o)
    return str(o)


def report_violation(engine, rec, v, count, seen_min=None):
    """Minimise, write replay file, verify in a fresh interpreter, print."""
    prop = engine.prop
    cls, site = v["cls"], v["site"]
    same = getattr(engine, "same_violation", None) or (lambda x, c, s: x["cls"] == c and x["site"] == s)

    def still_fails(values):
        try:
            r = run_one(engine, values=values)
        except BaseException:  # noqa: BLE001
            return False
        return any(same(x, cls, site) for x in r["violations"])

    t_end = time.time() + 120
    values = rec["tape"]
    if still_fails(values):
        mini = tapemod.minimise(values, still_fails, max_replays=400, deadline=lambda: time.time() > t_end)
    else:
        mini = values  # not reproducible in-process: will be caught below
    r = run_one(engine, values=mini)
    vv = [x for x in r["violations"] if same(x, cls, site)]
    if vv:
        cls, site = vv[0]["cls"], vv[0]["site"]  # the option mix may have shrunk
    if seen_min is not None:
        if (cls, site) in seen_min:
            return None
        seen_min.add((cls, site))
    path = os.path.join(REPLAY_DIR, f"{prop}-{rec['sub_seed']}.json")
    doc = {
        "property": prop,
        "engine": engine.name,
        "sub_seed": rec["sub_seed"],
        "k": rec["k"],
        "original_tape_len": len(rec["tape"]),
        "tape": mini,
        "expect": {"cls": cls, "site": site, "digest": r["digest"]},
        "detail": (vv[0]["detail"] if vv else v["detail"]),
        "trace": r["trace"][-80:],
        "replay_cmd": f"./check {prop} --replay {path}",
    }
    with open(path, "w") as f:
        json.dump(doc, f, indent=1, default=_json_default)
    # verify in a fresh interpreter
    p = subprocess.run([CHECK, prop, "--replay", path], env=fresh_env(0), capture_output=True, text=True, timeout=900)
    ok = p.returncode == 1 and f"REPRODUCED class={cls}" in p.stdout
    if not ok:
        harness_exit(f"{prop}: violation class={cls} site={site} (k={rec['k']}) did not replay in a fresh "
                     f"interpreter (rc={p.returncode}): {p.stdout[-800:]} {p.stderr[-800:]}")
    print(f"[{prop}] class={cls} site={site} runs_affected>={count} tape {len(rec['tape'])}->{len(mini)} values")
    print(f"[{prop}] {doc['detail'][:800]}")
    print(f"VIOLATION property={prop} replay={path}", flush=True)
    return path, cls, site


def main_replay(engine, path):
    with open(path) as f:
        doc = json.load(f)
    if "tape" not in doc:
        # part-level replay (enumeration etc.)
        engine.prepare("quick")
        ok, detail = engine.replay_part(doc)
        if ok:
            print(f"REPRODUCED class={doc['violation']['cls']} {detail}")
            print(f"VIOLATION property={engine.prop} replay={path}")
            sys.exit(1)
        print(f"NOT-REPRODUCED {detail}")
        sys.exit(0)
    engine.prepare("quick")
    r = run_one(engine, values=doc["tape"])
    exp = doc["expect"]
    hit = [x for x in r["violations"] if x["cls"] == exp["cls"] and x["site"] == exp["site"]]
    for ln in r["trace"][-60:]:
        print("  ", ln)
    if hit:
        same = r["digest"] == exp.get("digest")
        print(f"REPRODUCED class={exp['cls']} site={exp['site']} digest_identical={same}")
        print(hit[0]["detail"][:1500])
        print(f"VIOLATION property={engine.prop} replay={path}")
        sys.exit(1)
    print(f"NOT-REPRODUCED (violations now: {[(x['cls'], x['site']) for x in r['violations']]})")
    sys.exit(0)


def main_digests(engine, m, tier, verif_seed):
    """Digests of the first m runs; with VERIF_EXTRA_RUNS=start:count also runs that slice.  Violations seen in any of
    these runs are printed as `VIOL <json>` lines (used by engines whose sweep doubles as a batch in another mode)."""
    engine.prepare(tier)
    out = {}
    ks = list(range(m))
    extra = os.environ.get("VERIF_EXTRA_RUNS")
    if extra:
        a, b = extra.split(":")
        ks += list(range(int(a), int(a) + int(b)))
    known = load_known(engine.prop)
    for k in ks:
        r = run_one(engine, seed=tapemod.sub_seed(verif_seed, engine.prop, k))
        if k < m:
            out[str(k)] = r["digest"]
        for v in r["violations"]:
            e = match_known(v, known)
            print("VIOL " + json.dumps({"k": k, "cls": v["cls"], "site": v["site"], "detail": v["detail"][:1200],
                                        "known": e["what"] if e else None}))
    print("RUNS " + json.dumps(len(ks)))
    print("DIGESTS " + json.dumps(out))
    sys.exit(0)
