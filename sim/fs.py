"""`fs` engine core: simulated file system + cooperative process scheduler.

* Simulated *processes* are real Python threads released one at a time (baton
  passing).  A thread runs until it reaches an intercepted call, parks, and the
  scheduler - driven by the tape - picks who proceeds.  Only one thread ever
  runs, so the interleaving is exactly the tape.
* *Files* are inodes (byte arrays) bound to names; open file descriptions hold
  an inode and their own offset, so replace/remove under a reader, truncation
  under a live writer and lazy chunked reads of a growing file behave as on
  POSIX.  User-space buffering is the *real* CPython io stack
  (TextIOWrapper / BufferedWriter / BufferedReader) on top of a simulated raw
  file; its buffer and chunk sizes are per-run knobs.
* *Crash* = process kill at a scheduling point or at a byte offset inside a raw
  write (torn write).  Everything already handed to the "kernel" stays,
  un-flushed user buffers are lost, no cleanup code of the victim has any
  effect.  Power loss is not modelled (see DESIGN.md 3.3).
* Virtual time: time.time/monotonic read the simulator clock in simulated
  processes; time.sleep parks the process.

Only paths under VROOT (and fds >= FD_BASE) are simulated; everything else goes
to the real functions untouched.
"""

import builtins
import errno
import io
import os
import stat as statmod
import tempfile
import threading
import time

from .runner import HarnessError

VROOT = "/__simfs__"
FD_BASE = 1_000_000

ACTIVE = None  # the World currently simulated in this OS process (one at a time)
_INSTALLED = False
_REAL = {}


class Killed(BaseException):
    """Unwinds the thread of a simulated process that has been killed."""


# ----------------------------------------------------------------------------
# file system objects
# ----------------------------------------------------------------------------
class Inode:
    __slots__ = ("data", "ino", "mtime", "nlink", "lock_ex", "lock_sh")

    def __init__(self, ino, mtime):
        self.data = bytearray()
        self.ino = ino
        self.mtime = mtime
        self.nlink = 1
        self.lock_ex = None
        self.lock_sh = set()


class Desc:
    """An open file description (what a POSIX fd points to)."""

    __slots__ = ("inode", "pos", "readable", "writable", "append", "owner", "path", "closed", "fd")

    def __init__(self, inode, readable, writable, append, owner, path):
        self.inode = inode
        self.pos = 0
        self.readable = readable
        self.writable = writable
        self.append = append
        self.owner = owner
        self.path = path
        self.closed = False
        self.fd = None


class SimRaw(io.RawIOBase):
    """Raw (unbuffered) file over a Desc; each read/write is one system call and
    therefore one scheduling point."""

    def __init__(self, world, desc, name, closefd=True):
        super().__init__()
        self._w = world
        self._d = desc
        self.name = name
        self._closefd = closefd
        self.mode = "rb+" if (desc.readable and desc.writable) else ("wb" if desc.writable else "rb")

    def readable(self):
        return self._d.readable

    def writable(self):
        return self._d.writable

    def seekable(self):
        return True

    def isatty(self):
        return False

    def fileno(self):
        if self._d.fd is None:
            self._w.assign_fd(self._d)
        return self._d.fd

    def readinto(self, b):
        d = self._d
        if d.closed:
            raise ValueError("I/O operation on closed file")
        if not d.readable:
            raise io.UnsupportedOperation("not readable")
        self._w.sched("read", d.path)
        data = d.inode.data
        n = max(0, min(len(b), len(data) - d.pos, self._w.knobs["read_chunk"]))
        b[:n] = data[d.pos:d.pos + n]
        d.pos += n
        return n

    def write(self, b):
        d = self._d
        if d.owner is not None and d.owner.killed:
            return len(b)  # dead process: nothing reaches the kernel (silent, also from __del__)
        if d.closed:
            raise ValueError("I/O operation on closed file")
        if not d.writable:
            raise io.UnsupportedOperation("not writable")
        b = bytes(b)
        torn = self._w.sched("write", d.path, nbytes=len(b))
        if torn is not None and torn < 0:
            self._w.fs.write(d, b[:-torn - 1])
            raise OSError(errno.ENOSPC, os.strerror(errno.ENOSPC))
        if torn is not None:
            self._w.fs.write(d, b[:torn])
            self._w.kill_current(f"write:{torn}/{len(b)}")
        self._w.fs.write(d, b)
        return len(b)

    def seek(self, off, whence=0):
        d = self._d
        if whence == 0:
            d.pos = off
        elif whence == 1:
            d.pos += off
        elif whence == 2:
            d.pos = len(d.inode.data) + off
        if d.pos < 0:
            d.pos = 0
        return d.pos

    def tell(self):
        return self._d.pos

    def truncate(self, size=None):
        d = self._d
        if d.owner is not None and d.owner.killed:
            return 0
        self._w.sched("truncate", d.path)
        if size is None:
            size = d.pos
        self._w.fs.truncate(d.inode, size)
        return size

    def close(self):
        if self.closed:
            return
        try:
            super().close()  # flush (no-op for raw)
        finally:
            d = self._d
            if self._closefd and not d.closed:
                if d.owner is not None and d.owner.killed:
                    self._w.fs.close_desc(d)  # kernel closes fds of a dead process
                else:
                    self._w.sched("close", d.path)
                    self._w.fs.close_desc(d)


class SimFS:
    def __init__(self, world):
        self.w = world
        self.dirs = {"/", VROOT}
        self.files = {}  # path -> Inode
        self.fds = {}  # fd -> Desc
        self.next_ino = 1
        self.next_fd = FD_BASE
        self.open_descs = []

    # -- helpers -----------------------------------------------------------
    @staticmethod
    def norm(path):
        p = os.fspath(path)
        if isinstance(p, bytes):
            p = p.decode()
        p = os.path.normpath(p)
        return p

    def _parent_ok(self, p):
        par = os.path.dirname(p)
        if par not in self.dirs:
            if par in self.files:
                raise NotADirectoryError(errno.ENOTDIR, os.strerror(errno.ENOTDIR), p)
            raise FileNotFoundError(errno.ENOENT, os.strerror(errno.ENOENT), p)

    def snapshot(self):
        return {p: bytes(i.data) for p, i in sorted(self.files.items())}

    # -- operations (called after the scheduling point) ---------------------
    def stat(self, path):
        p = self.norm(path)
        t = self.w.clock
        if p in self.dirs:
            return os.stat_result((statmod.S_IFDIR | 0o755, 2, 1, 2, 0, 0, 4096, t, t, t))
        ino = self.files.get(p)
        if ino is None:
            if os.path.dirname(p) in self.files:
                raise NotADirectoryError(errno.ENOTDIR, os.strerror(errno.ENOTDIR), p)
            raise FileNotFoundError(errno.ENOENT, os.strerror(errno.ENOENT), p)
        return self.stat_inode(ino)

    def stat_inode(self, ino):
        return os.stat_result((statmod.S_IFREG | 0o644, ino.ino, 1, ino.nlink, 0, 0, len(ino.data),
                               ino.mtime, ino.mtime, ino.mtime))

    def mkdir(self, path):
        p = self.norm(path)
        if p in self.dirs or p in self.files:
            raise FileExistsError(errno.EEXIST, os.strerror(errno.EEXIST), p)
        self._parent_ok(p)
        self.dirs.add(p)

    def rmdir(self, path):
        p = self.norm(path)
        if p not in self.dirs:
            raise FileNotFoundError(errno.ENOENT, os.strerror(errno.ENOENT), p)
        if self.listdir(p):
            raise OSError(errno.ENOTEMPTY, os.strerror(errno.ENOTEMPTY), p)
        self.dirs.discard(p)

    def listdir(self, path):
        p = self.norm(path)
        if p not in self.dirs:
            if p in self.files:
                raise NotADirectoryError(errno.ENOTDIR, os.strerror(errno.ENOTDIR), p)
            raise FileNotFoundError(errno.ENOENT, os.strerror(errno.ENOENT), p)
        pre = p.rstrip("/") + "/"
        out = set()
        for q in list(self.files) + list(self.dirs):
            if q.startswith(pre) and q != p:
                out.add(q[len(pre):].split("/", 1)[0])
        return sorted(out)

    def unlink(self, path):
        p = self.norm(path)
        if p in self.dirs:
            raise IsADirectoryError(errno.EISDIR, os.strerror(errno.EISDIR), p)
        ino = self.files.pop(p, None)
        if ino is None:
            raise FileNotFoundError(errno.ENOENT, os.strerror(errno.ENOENT), p)
        ino.nlink -= 1

    def rename(self, src, dst):
        s, d = self.norm(src), self.norm(dst)
        if s in self.dirs:
            raise HarnessError(f"simfs: rename of a directory is not modelled ({s})")
        ino = self.files.get(s)
        if ino is None:
            raise FileNotFoundError(errno.ENOENT, os.strerror(errno.ENOENT), s)
        if d in self.dirs:
            raise IsADirectoryError(errno.EISDIR, os.strerror(errno.EISDIR), d)
        self._parent_ok(d)
        if s == d:
            return
        old = self.files.get(d)
        if old is not None:
            old.nlink -= 1
        self.files[d] = ino
        del self.files[s]

    def link(self, src, dst):
        s, d = self.norm(src), self.norm(dst)
        ino = self.files.get(s)
        if ino is None:
            raise FileNotFoundError(errno.ENOENT, os.strerror(errno.ENOENT), s)
        if d in self.files or d in self.dirs:
            raise FileExistsError(errno.EEXIST, os.strerror(errno.EEXIST), d)
        self._parent_ok(d)
        self.files[d] = ino
        ino.nlink += 1

    def open_desc(self, path, readable, writable, create, excl, trunc, append, owner):
        p = self.norm(path)
        if p in self.dirs:
            raise IsADirectoryError(errno.EISDIR, os.strerror(errno.EISDIR), p)
        ino = self.files.get(p)
        if ino is None:
            if not create:
                raise FileNotFoundError(errno.ENOENT, os.strerror(errno.ENOENT), p)
            self._parent_ok(p)
            ino = Inode(self.next_ino, self.w.clock)
            self.next_ino += 1
            self.files[p] = ino
            self.w.probe("file_created")
        else:
            if create and excl:
                raise FileExistsError(errno.EEXIST, os.strerror(errno.EEXIST), p)
            others_writing = [d for d in self.open_descs if d.inode is ino and d.writable and d.owner is not owner
                              and d.owner is not None and not d.owner.killed]
            if readable and not writable and any(
                d.writable and d.owner is not owner and d.owner is not None and not d.owner.killed
                for d in self.open_descs
            ):
                self.w.probe("reader_opened_while_a_writer_was_active")
            if writable and others_writing:
                self.w.probe("two_writers_same_inode")
            if readable and not writable and others_writing:
                self.w.probe("reader_opened_during_write")
            if trunc and writable:
                if others_writing:
                    self.w.probe("truncate_under_live_writer")
                self.truncate(ino, 0)
        d = Desc(ino, readable, writable, append, owner, p)
        self.open_descs.append(d)
        if owner is not None:
            owner.descs.append(d)
        return d

    def close_desc(self, d):
        if d.closed:
            return
        d.closed = True
        if d in self.open_descs:
            self.open_descs.remove(d)
        if d.fd is not None:
            self.fds.pop(d.fd, None)
        ino = d.inode
        if ino.lock_ex is d:
            ino.lock_ex = None
        ino.lock_sh.discard(d)

    def write(self, d, b):
        if not b:
            return
        data = d.inode.data
        if d.append:
            d.pos = len(data)
        if d.pos > len(data):
            data.extend(b"\0" * (d.pos - len(data)))
            self.w.probe("write_after_hole")
        data[d.pos:d.pos + len(b)] = b
        d.pos += len(b)
        d.inode.mtime = self.w.clock

    def truncate(self, ino, size):
        if size < len(ino.data):
            del ino.data[size:]
        else:
            ino.data.extend(b"\0" * (size - len(ino.data)))
        ino.mtime = self.w.clock


# ----------------------------------------------------------------------------
# processes and scheduler
# ----------------------------------------------------------------------------
class Proc:
    def __init__(self, pid, name, fn, die_at=None, torn_frac=0.0, torn_k=None):
        self.enospc_at = None  # 1-based scheduling step (a write) that fails once with ENOSPC after a partial write
        self.enospc_frac = 0.0
        self.enospc_fired = False
        self.pid = pid
        self.name = name
        self.fn = fn
        self.die_at = die_at  # 1-based index of the scheduling step at which the process is killed
        self.torn_frac = torn_frac
        self.torn_k = torn_k
        self.thread = None
        self.sem = threading.Lock()  # baton: released by the scheduler, acquired by the process
        self.sem.acquire()
        self.state = "new"  # new | parked | done | dead | error
        self.killed = False
        self.kill_info = None
        self.result = None
        self.error = None
        self.steps = 0
        self.descs = []
        self.wake_at = None
        self.blocked_on = None
        self.step_log = []  # (kind, nbytes) per step, used by the crash-point enumeration


class World:
    def __init__(self, tape, log, knobs=None, record_steps=False):
        self.tape = tape
        self.log = log
        self.knobs = {"bufsize": 8192, "read_chunk": 1 << 30, "read_floor": 48, "step_dt": 1e-4, "style": "random"}
        if knobs:
            self.knobs.update(knobs)
        self.fs = SimFS(self)
        self.clock = 1_000_000.0
        self.t0 = self.clock
        self.procs = []
        self.main_sem = threading.Lock()  # baton back to the scheduler (strictly alternating hand-over)
        self.main_sem.acquire()
        self._tls = threading.local()
        self.events = 0
        self.stats = {}
        self.record_steps = record_steps
        self.last = None
        self.next_pid = 4000
        self.tmp_counter = 0
        self.step_cap_hit = False
        self.deadlock = False

    # -- bookkeeping ---------------------------------------------------------
    def probe(self, name):
        k = "probe." + name
        self.stats[k] = self.stats.get(k, 0) + 1

    def fault(self, name):
        k = "fault." + name
        self.stats[k] = self.stats.get(k, 0) + 1

    def cur(self):
        return getattr(self._tls, "proc", None)

    def assign_fd(self, d):
        fd = self.fs.next_fd
        self.fs.next_fd += 1
        self.fs.fds[fd] = d
        d.fd = fd
        return fd

    # -- called from simulated-process threads --------------------------------
    def sched(self, kind, info="", nbytes=None):
        """Scheduling point *before* an operation takes effect.  Returns None, or
        (for writes) the number of bytes to write before the process dies."""
        p = self.cur()
        if p is None:
            return None  # direct mode (oracle / set-up code outside any simulated process)
        if p.killed:
            raise Killed()
        p.steps += 1
        self.events += 1
        self.clock += self.knobs["step_dt"]
        if self.record_steps:
            p.step_log.append((kind, nbytes))
        self.log.add(p.pid, p.steps, kind, os.path.basename(str(info)), nbytes)
        # hand over to the scheduler, wait to be picked again
        self._park(p)
        if p.die_at is not None and p.steps == p.die_at:
            if kind == "write" and nbytes:
                k = p.torn_k if p.torn_k is not None else int(p.torn_frac * (nbytes + 1))
                k = max(0, min(nbytes, k))
                if k > 0:
                    return k  # caller writes k bytes, then calls kill_current
            self.kill_current(kind)
        if kind == "write" and nbytes and p.enospc_at is not None and not p.enospc_fired and p.steps >= p.enospc_at:
            # disk full, once: part of the data reaches the file, then the call fails (the space is there again
            # for whatever the process does next)
            p.enospc_fired = True
            k = max(0, min(nbytes - 1, int(p.enospc_frac * nbytes)))
            self.fault("enospc")
            self.log.add(p.pid, "ENOSPC", f"{k}/{nbytes}")
            return -(k + 1)  # negative: caller writes k bytes and raises OSError(ENOSPC)
        return None

    def _park(self, p):
        p.state = "parked"
        self.main_sem.release()
        p.sem.acquire()
        if p.killed:
            raise Killed()

    def kill_current(self, where):
        p = self.cur()
        self._kill(p, where)
        raise Killed()

    def _kill(self, p, where):
        if p.killed:
            return
        p.killed = True
        p.kill_info = where
        kind = where.split(":")[0]
        self.fault("crash")
        self.fault("crash_at_" + kind)
        if where.startswith("write:"):
            k, n = where[6:].split("/")
            self.fault("torn_write" if 0 < int(k) < int(n) else "crash_after_full_write")
        self.log.add(p.pid, "KILLED", where)
        for d in list(p.descs):
            self.fs.close_desc(d)  # the kernel closes the fds and drops the locks of a dead process

    def sleep(self, secs):
        p = self.cur()
        if p is None:
            return
        if p.killed:
            raise Killed()
        p.wake_at = self.clock + max(0.0, float(secs))
        self.sched("sleep", f"{secs}")
        p.wake_at = None

    def block_until(self, cond, kind, info):
        p = self.cur()
        while True:
            self.sched(kind, info)
            if cond():
                return
            if p is None:
                raise HarnessError("simfs: blocking call outside a simulated process would never return")
            p.blocked_on = cond
            self.probe("blocked_on_" + kind)

    # -- scheduler (main thread) ----------------------------------------------
    def spawn(self, name, fn, die_at=None, torn_frac=0.0, torn_k=None):
        p = Proc(self.next_pid, name, fn, die_at, torn_frac, torn_k)
        self.next_pid += 1
        self.procs.append(p)
        return p

    def _body(self, p):
        self._tls.proc = p
        try:
            p.sem.acquire()
            if p.killed:
                raise Killed()
            p.result = p.fn()
            p.state = "done"
        except Killed:
            p.state = "dead"
        except HarnessError as e:
            p.error = e
            p.state = "error"
        except BaseException as e:  # noqa: BLE001 - the system under test failed; the oracle decides
            p.error = e
            p.state = "dead" if p.killed else "error"
        finally:
            if not p.killed:
                for d in list(p.descs):
                    self.fs.close_desc(d)  # process exit closes remaining fds
            self.log.add(p.pid, "EXIT", p.state, type(p.error).__name__ if p.error else "")
            self.main_sem.release()

    def run(self, max_steps=20000):
        global ACTIVE
        if ACTIVE is not None and ACTIVE is not self:
            raise HarnessError("simfs: two worlds active in one OS process")
        ACTIVE = self
        try:
            steps = 0
            while True:
                live = [p for p in self.procs if p.state in ("new", "parked")]
                if not live:
                    break
                runnable = []
                for p in live:
                    if p.wake_at is not None and p.wake_at > self.clock:
                        continue
                    if p.blocked_on is not None:
                        if not p.blocked_on():
                            continue
                        p.blocked_on = None
                    runnable.append(p)
                if not runnable:
                    sleepers = [p for p in live if p.wake_at is not None]
                    if sleepers:
                        self.clock = min(p.wake_at for p in sleepers)  # jump to the next timer
                        self.probe("clock_jump_to_timer")
                        continue
                    self.deadlock = True
                    for p in live:
                        self._reap(p)
                    break
                steps += 1
                if steps > max_steps:
                    self.step_cap_hit = True
                    for p in live:
                        self._reap(p)
                    break
                p = self._pick(runnable)
                self._step(p)
            for p in self.procs:
                if p.thread is not None:
                    p.thread.join(10)
                    if p.thread.is_alive():
                        raise HarnessError(f"simfs: thread of {p.name} did not terminate")
        finally:
            ACTIVE = None

    def _pick(self, runnable):
        style = self.knobs["style"]
        if len(runnable) == 1:
            self.last = runnable[0]
            return runnable[0]
        if style == "sticky" and self.last in runnable:
            if not self.tape.chance("preempt", 0.15):
                return self.last
        elif style == "fifo":
            # run the earliest spawned process to completion unless pre-empted (rare)
            if not self.tape.chance("preempt", 0.03):
                self.last = runnable[0]
                return runnable[0]
        p = runnable[self.tape.choose("sched", len(runnable))]
        if self.last is not None and p is not self.last:
            self.probe("context_switch")
        self.last = p
        return p

    def _step(self, p):
        if p.thread is None:
            p.thread = threading.Thread(target=self._body, args=(p,), daemon=True)
            p.state = "parked"
            p.thread.start()
        p.sem.release()
        self.main_sem.acquire()

    def _reap(self, p):
        """Kill a process that is still parked (step cap / deadlock)."""
        if p.state == "new":
            p.state = "dead"
            p.killed = True
            return
        self._kill(p, "reaped")
        p.sem.release()
        self.main_sem.acquire()


# ----------------------------------------------------------------------------
# seams
# ----------------------------------------------------------------------------
def _virt(path):
    if isinstance(path, str):
        return path.startswith(VROOT)
    if isinstance(path, int):
        return path >= FD_BASE
    if isinstance(path, bytes):
        return path.startswith(VROOT.encode())
    if hasattr(path, "__fspath__"):
        return _virt(path.__fspath__())
    return False


def _world_for(path):
    w = ACTIVE
    if w is None:
        if _virt(path):
            raise HarnessError(f"simfs: virtual path {path!r} used while no world is active")
        return None
    return w if _virt(path) else None


def sim_open(file, mode="r", buffering=-1, encoding=None, errors=None, newline=None, closefd=True, opener=None):
    w = _world_for(file)
    if w is None:
        return _REAL["io.open"](file, mode, buffering, encoding, errors, newline, closefd, opener)
    modes = set(mode)
    if modes - set("rwxabt+U") or len(mode) > len(modes):
        raise ValueError(f"invalid mode: {mode!r}")
    creating, reading, writing, appending = "x" in modes, "r" in modes, "w" in modes, "a" in modes
    updating, text, binary = "+" in modes, "t" in modes, "b" in modes
    if text and binary:
        raise ValueError("can't have text and binary mode at once")
    if creating + reading + writing + appending != 1:
        raise ValueError("must have exactly one of create/read/write/append mode")
    if binary and encoding is not None:
        raise ValueError("binary mode doesn't take an encoding argument")
    owner = w.cur()
    if owner is not None and owner.killed:
        raise Killed()
    if isinstance(file, int):
        d = w.fs.fds.get(file)
        if d is None:
            raise OSError(errno.EBADF, os.strerror(errno.EBADF))
        raw = SimRaw(w, d, file, closefd=closefd)
    elif opener is not None:
        flags = (os.O_RDWR if updating else (os.O_RDONLY if reading else os.O_WRONLY))
        if writing:
            flags |= os.O_CREAT | os.O_TRUNC
        if creating:
            flags |= os.O_CREAT | os.O_EXCL
        if appending:
            flags |= os.O_CREAT | os.O_APPEND
        fd = opener(file, flags)
        d = w.fs.fds.get(fd)
        if d is None:
            raise HarnessError("simfs: opener returned a non-simulated fd for a virtual path")
        raw = SimRaw(w, d, file, closefd=True)
    else:
        w.sched("open:" + "".join(sorted(modes - set("tb"))), file)
        d = w.fs.open_desc(
            file,
            readable=reading or updating,
            writable=writing or appending or creating or updating,
            create=writing or appending or creating,
            excl=creating,
            trunc=writing,
            append=appending,
            owner=owner,
        )
        raw = SimRaw(w, d, os.fspath(file), closefd=True)
    if appending:
        raw.seek(0, 2)
    if buffering == 0:
        if not binary:
            raise ValueError("can't have unbuffered text I/O")
        return raw
    line_buffering = buffering == 1 and not binary
    bufsize = w.knobs["bufsize"] if buffering in (-1, 1) else buffering
    bufsize = max(1, int(bufsize))
    if updating:
        buf = io.BufferedRandom(raw, bufsize)
    elif writing or appending or creating:
        buf = io.BufferedWriter(raw, bufsize)
    else:
        # readers: the granularity of reads is governed by knobs["read_chunk"]; a floor on the buffer keeps the
        # number of scheduling points per file read proportional to its line count, not its byte count
        buf = io.BufferedReader(raw, max(bufsize, w.knobs["read_floor"]))
    if binary:
        return buf
    t = io.TextIOWrapper(buf, encoding, errors, newline, line_buffering)
    if writing or appending or creating or updating:
        t._CHUNK_SIZE = max(1, int(w.knobs["bufsize"]))
    else:
        t._CHUNK_SIZE = max(int(w.knobs["bufsize"]), w.knobs["read_floor"])
    t.mode = mode
    return t


def _p_stat(path, *a, **kw):
    w = _world_for(path)
    if w is None:
        return _REAL["os.stat"](path, *a, **kw)
    if isinstance(path, int):
        d = w.fs.fds.get(path)
        if d is None:
            raise OSError(errno.EBADF, os.strerror(errno.EBADF))
        return w.fs.stat_inode(d.inode)
    w.sched("stat", path)
    return w.fs.stat(path)


def _p_lstat(path, *a, **kw):
    w = _world_for(path)
    if w is None:
        return _REAL["os.lstat"](path, *a, **kw)
    w.sched("stat", path)
    return w.fs.stat(path)


def _p_fstat(fd):
    w = _world_for(fd)
    if w is None:
        return _REAL["os.fstat"](fd)
    return _p_stat(fd)


def _p_mkdir(path, mode=0o777, *a, **kw):
    w = _world_for(path)
    if w is None:
        return _REAL["os.mkdir"](path, mode, *a, **kw)
    w.sched("mkdir", path)
    return w.fs.mkdir(path)


def _p_rmdir(path, *a, **kw):
    w = _world_for(path)
    if w is None:
        return _REAL["os.rmdir"](path, *a, **kw)
    w.sched("rmdir", path)
    return w.fs.rmdir(path)


def _p_listdir(path="."):
    w = _world_for(path)
    if w is None:
        return _REAL["os.listdir"](path)
    w.sched("listdir", path)
    return w.fs.listdir(path)


class SimDirEntry:
    def __init__(self, w, dirpath, name):
        self._w = w
        self.name = name
        self.path = os.path.join(dirpath, name)

    def is_dir(self, *, follow_symlinks=True):
        return self._w.fs.norm(self.path) in self._w.fs.dirs

    def is_file(self, *, follow_symlinks=True):
        return self._w.fs.norm(self.path) in self._w.fs.files

    def is_symlink(self):
        return False

    def is_junction(self):
        return False

    def stat(self, *, follow_symlinks=True):
        return _p_stat(self.path)

    def inode(self):
        return self.stat().st_ino

    def __fspath__(self):
        return self.path

    def __repr__(self):
        return f"<SimDirEntry {self.name!r}>"


class SimScandir:
    def __init__(self, entries):
        self._it = iter(entries)

    def __iter__(self):
        return self

    def __next__(self):
        return next(self._it)

    def __enter__(self):
        return self

    def __exit__(self, *a):
        self.close()
        return False

    def close(self):
        self._it = iter(())


def _p_scandir(path="."):
    w = _world_for(path)
    if w is None:
        return _REAL["os.scandir"](path)
    if isinstance(path, int):
        raise HarnessError("simfs: os.scandir on a simulated fd is not modelled")
    w.sched("scandir", path)
    p = os.fspath(path)
    if isinstance(p, bytes):
        p = p.decode()
    return SimScandir([SimDirEntry(w, p, name) for name in w.fs.listdir(p)])


def _p_unlink(path, *a, **kw):
    w = _world_for(path)
    if w is None:
        return _REAL["os.unlink"](path, *a, **kw)
    w.sched("unlink", path)
    return w.fs.unlink(path)


def _p_rename(src, dst, *a, **kw):
    ws, wd = _world_for(src), _world_for(dst)
    if ws is None and wd is None:
        return _REAL["os.rename"](src, dst, *a, **kw)
    if ws is None or wd is None:
        raise HarnessError(f"simfs: rename between real and virtual paths ({src!r} -> {dst!r})")
    ws.sched("rename", dst)
    return ws.fs.rename(src, dst)


def _p_replace(src, dst, *a, **kw):
    ws, wd = _world_for(src), _world_for(dst)
    if ws is None and wd is None:
        return _REAL["os.replace"](src, dst, *a, **kw)
    if ws is None or wd is None:
        raise HarnessError(f"simfs: replace between real and virtual paths ({src!r} -> {dst!r})")
    ws.sched("replace", dst)
    return ws.fs.rename(src, dst)


def _p_link(src, dst, *a, **kw):
    ws, wd = _world_for(src), _world_for(dst)
    if ws is None and wd is None:
        return _REAL["os.link"](src, dst, *a, **kw)
    if ws is None or wd is None:
        raise HarnessError("simfs: link between real and virtual paths")
    ws.sched("link", dst)
    return ws.fs.link(src, dst)


def _p_symlink(src, dst, *a, **kw):
    if _virt(src) or _virt(dst):
        raise HarnessError("simfs: symlinks are not modelled")
    return _REAL["os.symlink"](src, dst, *a, **kw)


def _p_access(path, mode, *a, **kw):
    w = _world_for(path)
    if w is None:
        return _REAL["os.access"](path, mode, *a, **kw)
    w.sched("access", path)
    try:
        w.fs.stat(path)
        return True
    except OSError:
        return False


def _p_chmod(path, mode, *a, **kw):
    w = _world_for(path)
    if w is None:
        return _REAL["os.chmod"](path, mode, *a, **kw)
    w.sched("chmod", path)
    w.fs.stat(path)


def _p_utime(path, *a, **kw):
    w = _world_for(path)
    if w is None:
        return _REAL["os.utime"](path, *a, **kw)
    w.sched("utime", path)
    w.fs.stat(path)


def _p_os_open(path, flags, mode=0o777, *a, **kw):
    w = _world_for(path)
    if w is None:
        return _REAL["os.open"](path, flags, mode, *a, **kw)
    owner = w.cur()
    acc = flags & os.O_ACCMODE
    w.sched("os.open", path)
    d = w.fs.open_desc(
        path,
        readable=acc in (os.O_RDONLY, os.O_RDWR),
        writable=acc in (os.O_WRONLY, os.O_RDWR),
        create=bool(flags & os.O_CREAT),
        excl=bool(flags & os.O_EXCL),
        trunc=bool(flags & os.O_TRUNC),
        append=bool(flags & os.O_APPEND),
        owner=owner,
    )
    return w.assign_fd(d)


def _desc(w, fd):
    d = w.fs.fds.get(fd)
    if d is None or d.closed:
        raise OSError(errno.EBADF, os.strerror(errno.EBADF))
    return d


def _p_os_close(fd):
    w = _world_for(fd)
    if w is None:
        return _REAL["os.close"](fd)
    p = w.cur()
    if p is not None and p.killed:
        raise Killed()
    d = _desc(w, fd)
    w.sched("close", d.path)
    w.fs.close_desc(d)


def _p_os_write(fd, data):
    w = _world_for(fd)
    if w is None:
        return _REAL["os.write"](fd, data)
    d = _desc(w, fd)
    if not d.writable:
        raise OSError(errno.EBADF, os.strerror(errno.EBADF))
    b = bytes(data)
    torn = w.sched("write", d.path, nbytes=len(b))
    if torn is not None and torn < 0:
        w.fs.write(d, b[:-torn - 1])
        raise OSError(errno.ENOSPC, os.strerror(errno.ENOSPC))
    if torn is not None:
        w.fs.write(d, b[:torn])
        w.kill_current(f"write:{torn}/{len(b)}")
    w.fs.write(d, b)
    return len(b)


def _p_os_read(fd, n):
    w = _world_for(fd)
    if w is None:
        return _REAL["os.read"](fd, n)
    d = _desc(w, fd)
    w.sched("read", d.path)
    n = max(0, min(n, len(d.inode.data) - d.pos, w.knobs["read_chunk"]))
    out = bytes(d.inode.data[d.pos:d.pos + n])
    d.pos += n
    return out


def _p_os_fsync(fd):
    w = _world_for(fd)
    if w is None:
        return _REAL["os.fsync"](fd)
    d = _desc(w, fd)
    w.sched("fsync", d.path)


def _p_os_fdatasync(fd):
    w = _world_for(fd)
    if w is None:
        return _REAL["os.fdatasync"](fd)
    d = _desc(w, fd)
    w.sched("fsync", d.path)


def _p_os_lseek(fd, pos, how):
    w = _world_for(fd)
    if w is None:
        return _REAL["os.lseek"](fd, pos, how)
    d = _desc(w, fd)
    if how == 0:
        d.pos = pos
    elif how == 1:
        d.pos += pos
    else:
        d.pos = len(d.inode.data) + pos
    return d.pos


def _p_os_ftruncate(fd, length):
    w = _world_for(fd)
    if w is None:
        return _REAL["os.ftruncate"](fd, length)
    d = _desc(w, fd)
    w.sched("truncate", d.path)
    w.fs.truncate(d.inode, length)


def _p_os_truncate(path, length):
    w = _world_for(path)
    if w is None:
        return _REAL["os.truncate"](path, length)
    if isinstance(path, int):
        return _p_os_ftruncate(path, length)
    w.sched("truncate", path)
    ino = w.fs.files.get(w.fs.norm(path))
    if ino is None:
        raise FileNotFoundError(errno.ENOENT, os.strerror(errno.ENOENT), path)
    w.fs.truncate(ino, length)


def _p_getpid():
    w = ACTIVE
    if w is not None:
        p = w.cur()
        if p is not None:
            return p.pid
    return _REAL["os.getpid"]()


def _p_time():
    w = ACTIVE
    if w is not None and w.cur() is not None:
        return w.clock
    return _REAL["time.time"]()


def _p_monotonic():
    w = ACTIVE
    if w is not None and w.cur() is not None:
        return w.clock - w.t0 + 100.0
    return _REAL["time.monotonic"]()


def _p_time_ns():
    w = ACTIVE
    if w is not None and w.cur() is not None:
        return int(w.clock * 1e9)
    return _REAL["time.time_ns"]()


def _p_sleep(secs):
    w = ACTIVE
    if w is not None and w.cur() is not None:
        return w.sleep(secs)
    return _REAL["time.sleep"](secs)


def _flock(fd, op):
    import fcntl

    w = _world_for(fd)
    if w is None:
        return _REAL["fcntl.flock"](fd, op)
    d = _desc(w, fd)
    ino = d.inode
    nb = bool(op & fcntl.LOCK_NB)
    op &= ~fcntl.LOCK_NB
    if op == fcntl.LOCK_UN:
        w.sched("flock_un", d.path)
        if ino.lock_ex is d:
            ino.lock_ex = None
        ino.lock_sh.discard(d)
        return None

    def free():
        if op == fcntl.LOCK_EX:
            return ino.lock_ex in (None, d) and not (ino.lock_sh - {d})
        return ino.lock_ex in (None, d)

    if nb:
        w.sched("flock_nb", d.path)
        if not free():
            raise BlockingIOError(errno.EWOULDBLOCK, os.strerror(errno.EWOULDBLOCK))
    else:
        w.block_until(free, "flock", d.path)
    if op == fcntl.LOCK_EX:
        ino.lock_sh.discard(d)
        ino.lock_ex = d
    else:
        if ino.lock_ex is d:
            ino.lock_ex = None
        ino.lock_sh.add(d)
    w.probe("flock_acquired")
    return None


def _lockf(fd, cmd, *a):
    w = _world_for(fd)
    if w is None:
        return _REAL["fcntl.lockf"](fd, cmd, *a)
    if a and any(a):
        raise HarnessError("simfs: byte-range lockf is not modelled")
    return _flock(fd, cmd)


def _fcntl(fd, cmd, *a):
    if _virt(fd):
        raise HarnessError("simfs: fcntl.fcntl on a simulated fd is not modelled")
    return _REAL["fcntl.fcntl"](fd, cmd, *a)


class _Names:
    """Deterministic replacement for tempfile's random name sequence."""

    def __iter__(self):
        return self

    def __next__(self):
        w = ACTIVE
        if w is None:
            return next(_REAL["tempfile.names"])
        w.tmp_counter += 1
        p = w.cur()
        return f"sim{p.pid if p else 0}x{w.tmp_counter:04d}"


def _get_candidate_names():
    if ACTIVE is None:
        return _REAL["tempfile._get_candidate_names"]()
    return _Names()


def install():
    """Install the seams (idempotent).  They are transparent for real paths."""
    global _INSTALLED
    if _INSTALLED:
        return
    import fcntl

    # numpy captures the builtin ``open`` when np.lib._datasource is first used: make it capture the real one now
    import numpy as np

    fo = np.lib._datasource._file_openers
    fo._load()
    if fo._file_openers.get(None) is not io.open:
        raise HarnessError("seam mismatch: numpy's default file opener is not builtins.open")

    _REAL.update({
        "io.open": io.open, "os.stat": os.stat, "os.lstat": os.lstat, "os.fstat": os.fstat, "os.mkdir": os.mkdir,
        "os.rmdir": os.rmdir, "os.listdir": os.listdir, "os.scandir": os.scandir, "os.unlink": os.unlink,
        "os.remove": os.remove, "os.rename": os.rename, "os.replace": os.replace, "os.link": os.link,
        "os.symlink": os.symlink, "os.access": os.access, "os.chmod": os.chmod, "os.utime": os.utime,
        "os.open": os.open, "os.close": os.close, "os.write": os.write, "os.read": os.read, "os.fsync": os.fsync,
        "os.fdatasync": os.fdatasync, "os.lseek": os.lseek, "os.ftruncate": os.ftruncate,
        "os.truncate": os.truncate, "os.getpid": os.getpid, "time.time": time.time,
        "time.monotonic": time.monotonic, "time.time_ns": time.time_ns, "time.sleep": time.sleep,
        "fcntl.flock": fcntl.flock, "fcntl.lockf": fcntl.lockf, "fcntl.fcntl": fcntl.fcntl,
        "tempfile._get_candidate_names": tempfile._get_candidate_names,
    })
    io.open = sim_open
    builtins.open = sim_open
    tempfile._io.open = sim_open  # same module object as io, kept explicit
    os.stat, os.lstat, os.fstat = _p_stat, _p_lstat, _p_fstat
    os.mkdir, os.rmdir, os.listdir, os.scandir = _p_mkdir, _p_rmdir, _p_listdir, _p_scandir
    os.unlink = os.remove = _p_unlink
    os.rename, os.replace, os.link, os.symlink = _p_rename, _p_replace, _p_link, _p_symlink
    os.access, os.chmod, os.utime = _p_access, _p_chmod, _p_utime
    os.open, os.close, os.write, os.read = _p_os_open, _p_os_close, _p_os_write, _p_os_read
    os.fsync, os.fdatasync, os.lseek = _p_os_fsync, _p_os_fdatasync, _p_os_lseek
    os.ftruncate, os.truncate = _p_os_ftruncate, _p_os_truncate
    os.getpid = _p_getpid
    time.time, time.monotonic, time.time_ns, time.sleep = _p_time, _p_monotonic, _p_time_ns, _p_sleep
    fcntl.flock, fcntl.lockf, fcntl.fcntl = _flock, _lockf, _fcntl
    tempfile._get_candidate_names = _get_candidate_names
    fo._file_openers[None] = sim_open
    _INSTALLED = True
