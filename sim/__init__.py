"""Deterministic simulation with fault injection for tskit-dev/tsdate.

See /verif/DESIGN.md.  Everything a run decides is drawn through
``sim.tape.Tape.choose`` so that one integer (VERIF_SEED) decides a batch and
one recorded tape decides a run.
"""
