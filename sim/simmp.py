"""SimMP: an in-process model of the observable behaviour of
``multiprocessing.Pool(...).imap_unordered`` whose every scheduling decision
comes from the tape.  It replaces the module attribute
``tsdate.discrete.multiprocessing`` for the duration of a simulated call.

State of one imap_unordered call = (task iterator not yet exhausted, tasks
pulled but not started/finished, results finished but not delivered).
Enabled events: *pull* the next task from the caller's iterable (the real pool
does this lazily from a feeder thread, concurrently with the caller's loop
body), *finish* one of the tasks currently running (at most ``processes`` run
at a time, the running set is the oldest pulled tasks), *deliver* the oldest
finished result to the caller (the result queue is FIFO).  The function, its
arguments and its results travel through pickle as in the real pool, so keys
come back as new objects.

Worker death is not injected: the real pool then hangs forever and no listed
property speaks about it.
"""

import pickle

from .runner import HarnessError

STYLES = ["fifo", "random", "reversed", "window", "eager_pull", "lazy_pull"]


class SimMP:
    """Stand-in for the ``multiprocessing`` module as seen from tsdate.discrete."""

    def __init__(self, tape, stats, log=None):
        self.tape = tape
        self.stats = stats
        self.log = log
        self.pools = 0

    def Pool(self, processes=None, initializer=None, initargs=(), maxtasksperchild=None, context=None):
        self.pools += 1
        self.stats["simmp.pools"] += 1
        if initializer is not None:
            initializer(*initargs)
        return SimPool(self, processes or 4)

    def cpu_count(self):
        return 4

    def get_context(self, method=None):
        return self

    def __getattr__(self, name):
        raise HarnessError(f"SimMP: multiprocessing.{name} is not modelled")


class SimPool:
    def __init__(self, mp, processes):
        self.mp = mp
        self.processes = max(1, int(processes))
        self.closed = False

    def __enter__(self):
        return self

    def __exit__(self, *a):
        self.terminate()
        return False

    def close(self):
        self.closed = True

    def terminate(self):
        self.closed = True

    def join(self):
        pass

    # -- the modelled call ---------------------------------------------------------
    def imap_unordered(self, func, iterable, chunksize=1):
        if self.closed:
            raise ValueError("Pool not running")
        tape, stats = self.mp.tape, self.mp.stats
        style = tape.pick("pool_style", STYLES)
        stats["simmp.style_" + style] += 1
        fpick = pickle.dumps(func)
        it = iter(iterable)
        exhausted = False
        pulled = []  # [(seq, pickled_arg)] in pull order; the first `processes` are running
        finished = []  # pickled ("ok", result) / ("err", exception), completion order
        seq = 0
        order_pulled, order_finished = [], []
        chunksize = max(1, int(chunksize))
        while True:
            enabled = []
            if not exhausted:
                enabled.append("pull")
            if pulled:
                enabled.append("finish")
            if finished:
                enabled.append("deliver")
            if not enabled:
                break
            if style == "fifo":
                # the near-sequential behaviour seen on an idle machine with tiny jobs
                ev = "pull" if "pull" in enabled and len(pulled) < self.processes else (
                    "finish" if "finish" in enabled else enabled[-1])
                if "deliver" in enabled and ev != "deliver" and tape.chance("fifo_deliver_first", 0.5):
                    ev = "deliver"
            elif style == "eager_pull":
                ev = "pull" if "pull" in enabled else enabled[tape.choose("ev", len(enabled))]
            elif style == "lazy_pull":
                # deliver / finish whenever possible: the iterator is consumed as late as it can be
                rest = [e for e in enabled if e != "pull"]
                ev = rest[tape.choose("ev", len(rest))] if rest else "pull"
            else:
                ev = enabled[tape.choose("ev", len(enabled))]
            if ev == "pull":
                try:
                    for _ in range(chunksize):
                        x = next(it)
                        pulled.append((seq, pickle.dumps(x)))
                        order_pulled.append(seq)
                        seq += 1
                except StopIteration:
                    exhausted = True
                except Exception as e:  # noqa: BLE001 - the real pool re-raises this in the caller
                    exhausted = True
                    finished.append(pickle.dumps(("err", e)))
                if finished and not exhausted:
                    stats["probe.result_ready_before_iterator_exhausted"] += 1
            elif ev == "finish":
                running = min(self.processes, len(pulled))
                if style in ("fifo", "eager_pull", "lazy_pull"):
                    j = 0
                elif style == "reversed":
                    j = running - 1
                elif style == "window":
                    j = tape.choose("finish", min(2, running))
                else:
                    j = tape.choose("finish", running)
                s, parg = pulled.pop(j)
                try:
                    r = ("ok", pickle.loads(fpick)(pickle.loads(parg)))
                except Exception as e:  # noqa: BLE001
                    r = ("err", e)
                finished.append(pickle.dumps(r))
                order_finished.append(s)
            else:
                kind, val = pickle.loads(finished.pop(0))
                if not exhausted:
                    stats["probe.delivered_before_iterator_exhausted"] += 1
                if kind == "err":
                    raise val
                stats["simmp.results_delivered"] += 1
                yield val
        if order_finished != sorted(order_finished):
            stats["probe.arrival_order_differs_from_submission"] += 1
        stats["simmp.tasks"] += len(order_finished)
        if self.mp.log is not None:
            self.mp.log.add("POOL", style, self.processes, order_finished[:40])

    def imap(self, func, iterable, chunksize=1):
        res = {}
        n = 0
        items = list(iterable)
        for i, x in enumerate(items):
            res[i] = pickle.loads(pickle.dumps(pickle.loads(pickle.dumps(func))(pickle.loads(pickle.dumps(x)))))
            n += 1
        for i in range(n):
            yield res[i]

    def map(self, func, iterable, chunksize=None):
        return list(self.imap(func, iterable))

    def starmap(self, func, iterable, chunksize=None):
        return [pickle.loads(pickle.dumps(pickle.loads(pickle.dumps(func))(*pickle.loads(pickle.dumps(x)))))
                for x in list(iterable)]

    def apply_async(self, *a, **kw):
        raise HarnessError("SimMP: Pool.apply_async is not modelled")

    def map_async(self, *a, **kw):
        raise HarnessError("SimMP: Pool.map_async is not modelled")
