"""Entry point: /verif/check <ID> [--tier quick|thorough] [--replay FILE].

Honours VERIF_SEED, VERIF_TIER, TSDATE_REPO (default /repo), VERIF_WORKERS,
VERIF_WALL_S.  Re-execs itself once with PYTHONHASHSEED=0.
"""

import argparse
import os
import sys

VERIF_DIR = os.path.dirname(os.path.dirname(os.path.abspath(__file__)))

ENGINES = {
    "C36": ("sim.engines.c36", "C36Engine"),
    "C09": ("sim.engines.c09", "C09Engine"),
    "C21": ("sim.engines.ep", "C21Engine"),
    "C05": ("sim.engines.ep", "C05Engine"),
    "C20": ("sim.engines.ep", "C20Engine"),
    "C33": ("sim.engines.pipe", "C33Engine"),
    "C34": ("sim.engines.pipe", "C34Engine"),
}

NOJIT = {"C36", "C09"}  # C09: main batch without JIT (cheap forks for process isolation); its sweep re-runs with JIT


def main():
    ap = argparse.ArgumentParser()
    ap.add_argument("prop")
    ap.add_argument("--tier", default=os.environ.get("VERIF_TIER") or "quick", choices=["quick", "thorough"])
    ap.add_argument("--replay")
    ap.add_argument("--digests", type=int)
    ap.add_argument("--op", help="engine-specific sub-operation (used by fresh-interpreter sweeps)")
    ap.add_argument("--arg", help="argument (file) for --op")
    args = ap.parse_args()

    if os.environ.get("PYTHONHASHSEED") is None or (
        os.environ.get("PYTHONHASHSEED") != "0" and not os.environ.get("VERIF_NO_REEXEC")
    ):
        env = dict(os.environ)
        env["PYTHONHASHSEED"] = "0"
        os.execve(sys.executable, [sys.executable] + sys.argv, env)

    prop = args.prop.upper()
    if prop not in ENGINES:
        print(f"HARNESS-ERROR unknown property {prop}")
        sys.exit(2)

    # environment for the system under simulation: set before tsdate/numba import
    repo = os.environ.get("TSDATE_REPO", "/repo")
    os.environ["TSDATE_REPO"] = repo
    os.environ["TSDATE_VERIF"] = "1"  # guard name recorded in MANIFEST.hooks (no source hook uses it today)
    os.environ.pop("TSDATE_ENABLE_NUMBA_CACHE", None)  # numba disk cache stays off: always compile current sources
    if (prop in NOJIT or os.environ.get("VERIF_NOJIT")) and not os.environ.get("VERIF_FORCE_JIT"):
        os.environ["NUMBA_DISABLE_JIT"] = "1"
    sys.path.insert(0, repo)
    sys.path.insert(0, VERIF_DIR)
    os.environ.setdefault("OMP_NUM_THREADS", "1")
    os.environ.setdefault("OPENBLAS_NUM_THREADS", "1")
    os.environ.setdefault("MKL_NUM_THREADS", "1")

    import importlib

    # tqdm starts a monitor THREAD at the first progress bar (even a disabled one) which wakes every 10 s and takes
    # tqdm's class-level lock; a fork() that lands in that instant leaves the child with a lock owned by a thread that
    # does not exist there, and the child hangs at its next progress bar.  The engines fork a lot (worker pools,
    # C09's process isolation), so the monitor is switched off before tsdate is imported.  (Found as an intermittent
    # hang of C09: children stuck in tqdm.__new__ -> RLock.acquire.)
    import tqdm.std

    tqdm.std.tqdm.monitor_interval = 0

    from sim import runner

    modname, clsname = ENGINES[prop]
    try:
        mod = importlib.import_module(modname)
    except runner.HarnessError as e:
        runner.harness_exit(str(e))
    engine = getattr(mod, clsname)()

    seed = int(os.environ.get("VERIF_SEED") or 0)
    os.environ["VERIF_MODE"] = "op" if args.op else "replay" if args.replay else (
        "digests" if args.digests is not None else "main")
    if args.op:
        sys.exit(engine.sub_operation(args.op, args.arg, args.tier, seed))
    if args.replay:
        runner.main_replay(engine, args.replay)
    elif args.digests is not None:
        runner.main_digests(engine, args.digests, args.tier, seed)
    else:
        wall = os.environ.get("VERIF_WALL_S")
        runner.main_check(engine, args.tier, seed, wall_cap=float(wall) if wall else None)


if __name__ == "__main__":
    main()
