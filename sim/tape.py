"""The choice tape: the only source of nondeterminism in a simulated run.

A run draws every decision (workload shape, option values, which simulated
process runs next, where a crash lands, which message is skipped, arrival
order of pool results, clock increments) through ``Tape.choose``.  In
*generate* mode the value comes from a ``random.Random`` seeded with the run's
sub-seed and is appended to the tape; in *replay* mode the recorded values are
fed back.  When a replayed tape runs out, ``choose`` returns 0, which every
generator maps to its simplest choice (no fault, first runnable process,
smallest size) - so any prefix / edited tape is still a valid run and delta
debugging over the list of integers is sound.

Logging never draws from the PRNG and never reads a real clock.
"""

import hashlib
import random


def sub_seed(verif_seed, prop, k):
    """Seed of run *k* of property *prop* in the batch decided by *verif_seed*."""
    h = hashlib.sha256(f"{int(verif_seed)}/{prop}/{int(k)}".encode()).digest()
    return int.from_bytes(h[:8], "big")


class Tape:
    RES = 1 << 20  # resolution of chance()/uniform()

    def __init__(self, seed=None, values=None):
        self.seed = seed
        self.replaying = values is not None
        self._values = list(values) if values is not None else None
        self._rng = random.Random(seed) if values is None else None
        self.pos = 0
        self.values = []  # values actually used by this run (normalised)
        self.labels = []  # parallel list of labels, for humans only

    # -- primitive -------------------------------------------------------
    def choose(self, label, n):
        """An integer in [0, n). 0 must be the simplest choice."""
        n = int(n)
        if n <= 1:
            return 0
        if self.replaying:
            v = self._values[self.pos] if self.pos < len(self._values) else 0
            self.pos += 1
            v = int(v)
            if v < 0:
                v = 0
            if v >= n:
                v = n - 1
        else:
            v = self._rng.randrange(n)
        self.values.append(v)
        self.labels.append(label)
        return v

    # -- derived ---------------------------------------------------------
    def chance(self, label, p):
        """True with probability p; tape value 0 always means False."""
        if p <= 0.0:
            return False
        k = int(round(p * self.RES))
        v = self.choose(label, self.RES)
        return v >= self.RES - k

    def pick(self, label, seq):
        seq = list(seq)
        return seq[self.choose(label, len(seq))]

    def intrange(self, label, lo, hi):
        """Integer in [lo, hi] inclusive; lo is the simplest."""
        return lo + self.choose(label, hi - lo + 1)

    def uniform(self, label, lo, hi):
        return lo + (hi - lo) * (self.choose(label, self.RES) / self.RES)

    def loguniform(self, label, lo, hi):
        import math

        return math.exp(self.uniform(label, math.log(lo), math.log(hi)))

    def shuffle(self, label, seq):
        """Fisher-Yates driven by the tape; all-zero tape gives identity."""
        seq = list(seq)
        for i in range(len(seq) - 1):
            j = i + self.choose(label, len(seq) - i)
            seq[i], seq[j] = seq[j], seq[i]
        return seq

    def digest(self):
        return hashlib.sha256(repr(self.values).encode()).hexdigest()[:16]


class EventLog:
    """Deterministic event log of a run; its digest is what determinism
    self-tests compare.  Never reads a clock, never draws from the tape."""

    def __init__(self, keep=400):
        self._h = hashlib.sha256()
        self.n = 0
        self.keep = keep
        self.head = []

    def add(self, *fields):
        s = "|".join(_canon(f) for f in fields)
        self._h.update(s.encode())
        self._h.update(b"\n")
        self.n += 1
        if len(self.head) < self.keep:
            self.head.append(s)

    def digest(self):
        return self._h.hexdigest()[:20]


def _canon(x):
    if isinstance(x, float):
        return float(x).hex()
    if isinstance(x, bytes):
        return hashlib.sha256(x).hexdigest()[:12]
    return str(x)


def minimise(values, still_fails, max_replays=400, deadline=None):
    """Delta debugging over the integer tape.

    ``still_fails(values) -> bool`` replays the candidate and says whether the
    *same violation class* recurred.  Tries, in order: cutting the suffix,
    deleting blocks, zeroing blocks, lowering single values.  Bounded by
    *max_replays* calls and the optional ``deadline()`` -> bool (True = stop).
    """
    best = list(values)
    budget = [max_replays]

    def test(cand):
        if budget[0] <= 0 or (deadline is not None and deadline()):
            return False
        budget[0] -= 1
        return still_fails(cand)

    # strip trailing zeros: they are implied
    def strip(v):
        v = list(v)
        while v and v[-1] == 0:
            v.pop()
        return v

    best = strip(best)
    # 1. cut suffix (binary search on the shortest failing prefix)
    lo, hi = 0, len(best)  # invariant: best[:hi] fails
    while lo < hi and budget[0] > 0:
        mid = (lo + hi) // 2
        if test(best[:mid]):
            hi = mid
        else:
            lo = mid + 1
    best = strip(best[:hi])
    improved = True
    while improved and budget[0] > 0:
        improved = False
        # 2. delete blocks
        size = max(1, len(best) // 2)
        while size >= 1 and budget[0] > 0:
            i = 0
            while i < len(best) and budget[0] > 0:
                cand = best[:i] + best[i + size:]
                if len(cand) < len(best) and test(cand):
                    best = strip(cand)
                    improved = True
                else:
                    i += size
            size //= 2
        # 3. zero blocks
        size = max(1, len(best) // 2)
        while size >= 1 and budget[0] > 0:
            i = 0
            while i < len(best) and budget[0] > 0:
                if any(best[i:i + size]):
                    cand = best[:i] + [0] * len(best[i:i + size]) + best[i + size:]
                    if test(cand):
                        best = strip(cand)
                        improved = True
                i += size
            size //= 2
        # 4. lower single values
        for i in range(len(best)):
            if budget[0] <= 0:
                break
            if i >= len(best):
                break
            v = best[i]
            for cand_v in (0, 1, v // 2, v - 1):
                if 0 <= cand_v < v:
                    cand = best[:i] + [cand_v] + best[i + 1:]
                    if test(cand):
                        best = strip(cand)
                        improved = True
                        break
    return best
